import json, os
PROPS = [json.loads(l) for l in open(os.path.join(os.path.dirname(__file__), '..', 'properties.jsonl'))]
ALL_IDS = [p['id'] for p in PROPS]

def chk(pid, technique, text, note, design):
    return {
        'property_id': pid,
        'quick_cmd': './check %s --tier quick' % pid,
        'thorough_cmd': './check %s --tier thorough' % pid,
        'evidence_file': 'evidence/%s.json' % pid,
        'replay_cmd_template': './check %s --replay {path}' % pid,
        'engine': 'check',
        'level_claimed': {'category': 'exploration', 'text': text, 'design_ref': design},
        'level_note': note,
        'technique': technique,
    }

ZN = 'Trusts zonemodel.h/posixref.h/refcal.h (independent RFC 9636 reader + POSIX rule evaluator, 128-bit calendar), cross-checked at setup against glibc localtime_r; synthetic zones are limited to domain W (DESIGN.md 3.3); recorded known findings are excluded by input class and counted.'
CHECKS = [
 chk('C01', 'reference-model differential: exhaustive anchor sweep over shipped + zic-compiled zones, rapidcheck-generated TZif files (domain W)',
     'lookup(time_point) vs an independent TZif/POSIX model at every table entry (recorded, each of the 403 rule-table years, 400-year images up to the last representable year, sentinels) x deltas, on all 598 shipped files, zic-compiled random zic sources (slim+fat) and generated v1-v4 files; load success of every in-domain file.',
     ZN, 'DESIGN.md §5 C01'),
 chk('C02', 'reference-model differential (brute-force civil->instant) on anchored civil seconds; rapidcheck-generated zones',
     'lookup(civil_second) kind/pre/trans/post vs brute-force enumeration of the instants displaying the civil second, clamped in 128-bit: every second of short gaps/overlaps, edges +-2 s of long ones, seam/far/final rule years, civil min/max.',
     ZN, 'DESIGN.md §5 C02'),
 chk('C03', 'round-trip relation on anchored instants and civil seconds; rapidcheck-generated zones',
     'lookup(lookup(t).cs) must recover t (UNIQUE pre==t or REPEATED t in {pre,post}); every instant returned for a civil second must display it. No model needed for the verdict (model only classifies known-finding inputs).',
     ZN, 'DESIGN.md §5 C03'),
 chk('C06', 'monotonicity relation on sorted generated civil sequences',
     'convert(civil) non-decreasing along one sorted sequence per zone containing every gap/overlap neighbourhood, adjacent pairs, seam and far years, civil min/max, walked ascending and descending.',
     ZN, 'DESIGN.md §5 C06'),
 chk('C07', 'rapidcheck round-trip over a generated grammar of lossless formats',
     'zone panel (UTC, fixed offsets incl. sub-minute and +-23:59:59, shipped zones) x anchored instants x femtoseconds x lossless format grammar (field order, separators, %E*S / %S.%E*f / %E#S, %U/%W + weekday, month names, %E4Y, %s): parse(fmt, format(fmt,t,tz), any zone) == (t, fs).',
     'The family is the one stated in the property; LC_ALL=C. Known finding R3 (+-24:00:00 offsets) excluded by input class and counted.', 'DESIGN.md §5 C07'),
 chk('C08', 'rapidcheck token lists vs a reference renderer + strftime differential; libFuzzer for raw/malformed format bytes',
     'every library-defined specifier rendered from lookup() fields by fmtref and compared byte-for-byte, other conversions compared with strftime on the same fields; malformed strings checked for sanitizer-cleanliness, determinism and literal-prefix preservation.',
     'fmtref.h transcribes the documentation in time_zone.h; libc conversions that need a year outside the std::tm range are counted as unspecified.', 'DESIGN.md §5 C08'),
 chk('C09', 'rapidcheck constructive accept/reject cases (independent printer, expected instant known by construction) + libFuzzer self-consistency',
     'inputs rendered from chosen fields (incl. :60, 0-20 fraction digits, int64-limit instants, civil times in gaps/overlaps of the supplied zone, week-number and 12-hour forms); accept cases must return exactly the denoted instant or false iff it does not fit; reject cases carry one provably unabsorbable defect; every accepted result re-formats and re-parses to itself.',
     'No second parser is used; zonemodel gives the pre-reading of civil times in shipped zones. Known finding R12 excluded by input class.', 'DESIGN.md §5 C09'),
 chk('C10', 'boundary sweep under ASan/UBSan + model differential with 128-bit clamping',
     'all four operations at the outermost 2 days of both ranges, +-2^59, +-2^31, +-2^62 and table-congruent 400-year multiples, civil min/max and lookup(max/min).cs neighbourhoods, in every zone incl. fixed +-24h; sanitizer-clean and equal to the clamped model.',
     ZN, 'DESIGN.md §5 C10'),
 chk('C11', 'reference-model differential for next/prev_transition + chain symmetry',
     'next/prev at T-1,T,T+1 of every table entry vs the model\'s nearest real change (no-ops, big-bang entry, isdst-only/abbr-only changes, twin types generated on purpose); from/to vs lookup(); forward chain from min() equals reversed backward chain from max().',
     ZN + ' The point where rule-generated transitions stop being reported is documented as unspecified and treated so.', 'DESIGN.md §5 C11'),
 chk('C12', 'coverage-guided libFuzzer (ASan+UBSan) with in-target oracle + rapidcheck structure-aware TZif mutations + init-pattern differential',
     'arbitrary bytes served through a custom ZoneInfoSource: sanitizer/assert clean, terminates (per-input alarm, hangs confirmed by 3 timed replays), failed loads leave UTC, same bytes loaded twice give the same outcome and the same fingerprint over a probe panel; corpus + mutants re-run through -ftrivial-auto-var-init=pattern vs =zero builds whose outputs must agree.',
     'Sanitizers decide memory safety/UB for the executions that ran; libFuzzer campaigns are only approximately reproducible (saved artifacts are the reproducible unit). Inputs declaring > 128 KiB of data are skipped and counted.', 'DESIGN.md §5 C12'),
 chk('C13', 'rapidcheck-generated multi-threaded workloads under ThreadSanitizer with single-threaded re-execution as reference',
     'k = 2..16 (thorough: ..64) threads released together, each with a generated operation list over fresh overlapping names (valid, missing, garbage, fixed, UTC, file paths): loads, lookups both ways on shared zones across different transitions, transition queries, format, parse, utc/fixed/local factories. TSan must stay silent, every value must equal the single-threaded re-execution, all loaders of a name hold equal zones.',
     'TSan only sees interleavings that ran (sampled schedules, not enumerated); loader critical-section schedules are enumerated by C20 on the same code path. A report/mismatch is a positive observation (any of 3 x 15 re-runs confirms).', 'DESIGN.md §5 C13'),
 chk('C14', 'hint-state enumeration + rapidcheck call sequences against a fresh copy + cache model with counting data source',
     'every table interval is made the remembered hint before each probe (both directions) and answers compared with the history-free model; generated call sequences answered in order vs a fresh copy in reverse order; generated load() sequences checked against a name-cache model.',
     ZN, 'DESIGN.md §5 C14'),
 chk('C04', 'rapidcheck generated fields + exhaustive 146097-day base vs 128-bit reference normalization, under UBSan',
     'Six int64 fields from an anchored mixture, year drawn inside the exactly computed admissible interval (edges included); '
     'all six civil types, all 36 alignment conversions and operator<< compared with refcal; UBSan turns intermediate overflow into a failure.',
     'Trusts refcal.h; sampled (not exhaustive) over int64^6.', 'DESIGN.md §5 C04'),
 chk('C05', 'rapidcheck generated (alignment, civil time, count) vs 128-bit unit arithmetic, under UBSan',
     'For every alignment: a+n, n+a, b-n, b-a, inverse laws, ++/--/+=/-=, all relational operators incl. cross-alignment, '
     'with n drawn inside the exactly computed representable interval incl. INT64_MIN/MAX and extreme years.',
     'Trusts refcal.h; sampled over the input space.', 'DESIGN.md §5 C05'),
 chk('C15', 'exhaustive offset enumeration + rapidcheck mutated name strings vs documented naming rules',
     'Every offset in [-90000,90000] (thorough; quick strides) x instants across int64: name, abbreviation, lookups both ways, '
     'load-by-name equality, no data-source access (counting factory), name->offset; mutated/random strings against the acceptance rule.',
     'Naming rules transcribed from the headers; refcal for civil fields.', 'DESIGN.md §5 C15'),
 chk('C18', 'rapidcheck typed panel of duration types vs 128-bit floor division',
     '12 duration types x rep values at second boundaries / representation limits / uniform x zones x 0-18 digits: lookup, convert, '
     'format whole and fractional fields; parse into every panel type incl. range failure for narrow representations.',
     'Trusts refcal.h; panel of types is finite (listed in the rule).', 'DESIGN.md §5 C18'),
 chk('C16', 'rapidcheck grammar sentences + mutants and libFuzzer byte strings vs an independent POSIX-TZ parser',
     'acceptance and every result field (abbreviations, offsets with inverted sign, +1h default, dates, 02:00 default) compared with posixref; each string parsed twice into differently pre-filled result structs (determined by the string alone); exact-capacity heap copies make over-reads past the terminator visible to ASan.',
     'posixref.h encodes the grammar as stated in the property (abbreviation = <...> or >= 3 non-digit/sign/comma chars; any digit count with value in range).', 'DESIGN.md §5 C16'),
 chk('C17', 'exhaustive enumeration + rapidcheck-generated windows vs 128-bit reference calendar',
     'Every day of a 400-year window (146097 days) x 7 weekdays is enumerated for each window; windows cover the '
     'int64 year extremes, negative years and rapidcheck-generated start years. Exhaustive per window, sampled over windows.',
     'Trusts refcal.h (independent 128-bit era algorithm, cross-checked against glibc at setup).', 'DESIGN.md §5 C17'),
 chk('C19', 'exhaustive environment/name matrix in forked children vs a model of the documented resolution',
     'TZDIR (4) x 19 names for load_time_zone and TZDIR (4) x TZ (9) x LOCALTIME (5) for local_time_zone, every cell in its own process: success flag, name(), lookup fingerprint from the independently read file, equality with UTC on failure, default-constructed zone == UTC, repeat load.',
     'Resolution rules transcribed from time_zone.h and the property; the state of /etc/localtime and /usr/share/zoneinfo is read at run time.', 'DESIGN.md §5 C19'),
 chk('C20', 'exhaustive harness-owned loader schedules (threads parked inside the user factory) in forked children + rapidcheck sample for k=4',
     'every order of start/release actions for k <= 3 (thorough: 4) loader threads x every partition into same-name groups x name kinds, followed by repeat loads; the factory itself logs caller-thread identity, invocations per name and in-flight count.',
     'Schedules are at the granularity "inside the factory / not"; a loader blocked inside cctz is recognised by its /proc task state (bounded poll; unrealised steps are counted, never reported).', 'DESIGN.md §5 C20'),
]
claimed = {c['property_id'] for c in CHECKS}
# additions made while strengthening the checks against seeded changes (appended to the level text)
ADDED = {
 'C11': ' The templated overloads for sub-second time_points are related to the whole-second answers (next(t+f) = next(t), prev(t+f) = prev(t+1)); abbreviation-only changes to a related name (extended, truncated, shared tail) are generated on purpose.',
 'C12': ' Structured mutants also run under a g++ ASan/UBSan build with its own seeds (UB that one compiler folds away), and every saved case replays under both builds.',
 'C13': ' Each call\'s own result (including the return value and zone of a racing first load into a default or a pre-set time_zone) is what is compared; half of the in-memory names are served slowly (the harness-owned factory sleeps inside the load); one workload in four hammers a single shared zone through per-thread handles.',
 'C14': ' The loader cache is process-wide: the number of names loaded earlier in the process is part of each cache case (a replay re-creates a history of that size), and some sequences are preceded by a generated history of 300-5000 names.',
 'C15': ' Sequences of related offsets on one thread (equal modulo 2^32/2^16, negated, repeated) must answer as each call does alone; every accepted spelling keeps reporting the name it was asked for while the canonical name and fixed_time_zone(offset) keep the canonical one.',
 'C17': ' Both tiers include the contiguous band of years -10000..9999 (an error keyed on the absolute year cannot hide between sampled windows).',
 'C19': ' TZ values that merely begin with the keyword (localtime.bak, localtime/Paris, ...) and pairs of spellings of one fixed offset loaded in one process are part of the matrix.',
 'C20': ' The two-thread schedules are also run late in the life of a process (after 300-9000 distinct failing/valid names), with a sample of those names asked for again.',
}
for c in CHECKS:
    if c['property_id'] in ADDED:
        c['level_claimed']['text'] += ADDED[c['property_id']]

MANIFEST = {
 'version': 1,
 'setup_cmd': './setup.sh',
 'hooks': {
   'guard': 'GOOGLE_CCTZ_VERIF',
   'enable': 'checks compile /repo/src/*.cc themselves with -DGOOGLE_CCTZ_VERIF=1 (no hook code is currently needed; '
             'all observation points are public API, src/ headers or the zone_info_source_factory extension point)',
   'baseline_off_cmd': 'cmake --build /repo/_build && ctest --test-dir /repo/_build -j8 --timeout 900',
   'source_commits': [],
   'add_only': True,
 },
 'engines': [
   {'name': 'check', 'path': 'check', 'serves_properties': sorted(claimed),
    'kind_free_text': 'python driver: content-hashed rebuild of cctz from /repo working tree (clang ASan+UBSan/TSan/fuzzer), '
                      '(one check also with g++), runs rapidcheck / libFuzzer / exhaustive-enumeration harness binaries in shards, 3x replay confirmation, evidence merge'},
 ],
 'checks': CHECKS,
 'not_applicable': [{'property_id': i, 'reason': 'check not built yet (work in progress; see DESIGN.md §9)'}
                    for i in ALL_IDS if i not in claimed],
 'notes': 'All checks: ./check <ID> --tier quick|thorough; seeds via VERIF_SEED; replay via ./check <ID> --replay <file>.',
}
