import json, os
PROPS = [json.loads(l) for l in open(os.path.join(os.path.dirname(__file__), '..', 'properties.jsonl'))]
ALL_IDS = [p['id'] for p in PROPS]

def chk(pid, technique, text, note, design):
    return {
        'property_id': pid,
        'quick_cmd': './check %s --tier quick' % pid,
        'thorough_cmd': './check %s --tier thorough' % pid,
        'evidence_file': 'evidence/%s.json' % pid,
        'replay_cmd_template': './check %s --replay {path}' % pid,
        'engine': 'check',
        'level_claimed': {'category': 'exploration', 'text': text, 'design_ref': design},
        'level_note': note,
        'technique': technique,
    }

CHECKS = [
 chk('C04', 'rapidcheck generated fields + exhaustive 146097-day base vs 128-bit reference normalization, under UBSan',
     'Six int64 fields from an anchored mixture, year drawn inside the exactly computed admissible interval (edges included); '
     'all six civil types, all 36 alignment conversions and operator<< compared with refcal; UBSan turns intermediate overflow into a failure.',
     'Trusts refcal.h; sampled (not exhaustive) over int64^6.', 'DESIGN.md §5 C04'),
 chk('C05', 'rapidcheck generated (alignment, civil time, count) vs 128-bit unit arithmetic, under UBSan',
     'For every alignment: a+n, n+a, b-n, b-a, inverse laws, ++/--/+=/-=, all relational operators incl. cross-alignment, '
     'with n drawn inside the exactly computed representable interval incl. INT64_MIN/MAX and extreme years.',
     'Trusts refcal.h; sampled over the input space.', 'DESIGN.md §5 C05'),
 chk('C15', 'exhaustive offset enumeration + rapidcheck mutated name strings vs documented naming rules',
     'Every offset in [-90000,90000] (thorough; quick strides) x instants across int64: name, abbreviation, lookups both ways, '
     'load-by-name equality, no data-source access (counting factory), name->offset; mutated/random strings against the acceptance rule.',
     'Naming rules transcribed from the headers; refcal for civil fields.', 'DESIGN.md §5 C15'),
 chk('C18', 'rapidcheck typed panel of duration types vs 128-bit floor division',
     '12 duration types x rep values at second boundaries / representation limits / uniform x zones x 0-18 digits: lookup, convert, '
     'format whole and fractional fields; parse into every panel type incl. range failure for narrow representations.',
     'Trusts refcal.h; panel of types is finite (listed in the rule).', 'DESIGN.md §5 C18'),
 chk('C17', 'exhaustive enumeration + rapidcheck-generated windows vs 128-bit reference calendar',
     'Every day of a 400-year window (146097 days) x 7 weekdays is enumerated for each window; windows cover the '
     'int64 year extremes, negative years and rapidcheck-generated start years. Exhaustive per window, sampled over windows.',
     'Trusts refcal.h (independent 128-bit era algorithm, cross-checked against glibc at setup).', 'DESIGN.md §5 C17'),
]
claimed = {c['property_id'] for c in CHECKS}
MANIFEST = {
 'version': 1,
 'setup_cmd': './setup.sh',
 'hooks': {
   'guard': 'GOOGLE_CCTZ_VERIF',
   'enable': 'checks compile /repo/src/*.cc themselves with -DGOOGLE_CCTZ_VERIF=1 (no hook code is currently needed; '
             'all observation points are public API, src/ headers or the zone_info_source_factory extension point)',
   'baseline_off_cmd': 'cmake --build /repo/_build && ctest --test-dir /repo/_build -j8 --timeout 900',
   'source_commits': [],
   'add_only': True,
 },
 'engines': [
   {'name': 'check', 'path': 'check', 'serves_properties': sorted(claimed),
    'kind_free_text': 'python driver: content-hashed rebuild of cctz from /repo working tree (clang ASan+UBSan/TSan/fuzzer), '
                      'runs rapidcheck / libFuzzer / exhaustive-enumeration harness binaries in shards, 3x replay confirmation, evidence merge'},
 ],
 'checks': CHECKS,
 'not_applicable': [{'property_id': i, 'reason': 'check not built yet (work in progress; see DESIGN.md §9)'}
                    for i in ALL_IDS if i not in claimed],
 'notes': 'All checks: ./check <ID> --tier quick|thorough; seeds via VERIF_SEED; replay via ./check <ID> --replay <file>.',
}
