import json, os
PROPS = [json.loads(l) for l in open(os.path.join(os.path.dirname(__file__), '..', 'properties.jsonl'))]
ALL_IDS = [p['id'] for p in PROPS]

def chk(pid, technique, text, note, design):
    return {
        'property_id': pid,
        'quick_cmd': './check %s --tier quick' % pid,
        'thorough_cmd': './check %s --tier thorough' % pid,
        'evidence_file': 'evidence/%s.json' % pid,
        'replay_cmd_template': './check %s --replay {path}' % pid,
        'engine': 'check',
        'level_claimed': {'category': 'exploration', 'text': text, 'design_ref': design},
        'level_note': note,
        'technique': technique,
    }

CHECKS = [
 chk('C17', 'exhaustive enumeration + rapidcheck-generated windows vs 128-bit reference calendar',
     'Every day of a 400-year window (146097 days) x 7 weekdays is enumerated for each window; windows cover the '
     'int64 year extremes, negative years and rapidcheck-generated start years. Exhaustive per window, sampled over windows.',
     'Trusts refcal.h (independent 128-bit era algorithm, cross-checked against glibc at setup).', 'DESIGN.md §5 C17'),
]
claimed = {c['property_id'] for c in CHECKS}
MANIFEST = {
 'version': 1,
 'setup_cmd': './setup.sh',
 'hooks': {
   'guard': 'GOOGLE_CCTZ_VERIF',
   'enable': 'checks compile /repo/src/*.cc themselves with -DGOOGLE_CCTZ_VERIF=1 (no hook code is currently needed; '
             'all observation points are public API, src/ headers or the zone_info_source_factory extension point)',
   'baseline_off_cmd': 'cmake --build /repo/_build && ctest --test-dir /repo/_build -j8 --timeout 900',
   'source_commits': [],
   'add_only': True,
 },
 'engines': [
   {'name': 'check', 'path': 'check', 'serves_properties': sorted(claimed),
    'kind_free_text': 'python driver: content-hashed rebuild of cctz from /repo working tree (clang ASan+UBSan/TSan/fuzzer), '
                      'runs rapidcheck / libFuzzer / exhaustive-enumeration harness binaries in shards, 3x replay confirmation, evidence merge'},
 ],
 'checks': CHECKS,
 'not_applicable': [{'property_id': i, 'reason': 'check not built yet (work in progress; see DESIGN.md §9)'}
                    for i in ALL_IDS if i not in claimed],
 'notes': 'All checks: ./check <ID> --tier quick|thorough; seeds via VERIF_SEED; replay via ./check <ID> --replay <file>.',
}
