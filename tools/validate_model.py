#!/usr/bin/env python3
"""Two-of-three validation: each reference has documented quirks (glibc 2.36: slim files before their
explicit history, all-year negative DST, DST type 0; CPython 3.11 zoneinfo: 0-based 'n' rule dates, rule
transitions on 1 January, DST type 0), so a point counts as validated when the model agrees with at least
one of them; a point where BOTH disagree with the model fails setup.

Cross-checks the zonemodel dump (build/tools/modelcheck <zicdir> <dumpfile>) against Python's
zoneinfo (PEP 615): an implementation of TZif + POSIX footers that shares no code with cctz or
with the harness.  Exit 1 on any disagreement (a harness bug, never a cctz violation)."""
import sys, datetime
# the pure-Python implementation: the C accelerator of CPython 3.11 crashes (SIGSEGV) on some exotic zic output
import zoneinfo._zoneinfo as zoneinfo
EPOCH = datetime.datetime(1970, 1, 1, tzinfo=datetime.timezone.utc)
bad = bad_shipped = n = zones = both = only_zoneinfo = only_glibc = 0
z = None
first_is_dst = {}
for line in open(sys.argv[1], errors='surrogateescape'):
    if line.startswith('Z '):
        path = line[2:].rstrip('\n')
        try:
            raw = open(path, 'rb').read()
            # isdst flag of type 0 in the block that is decoded (second block for version >= 2)
            import struct
            def hdr(o): return struct.unpack('>6I', raw[o + 20:o + 44])
            o = 0
            if raw[4] != 0:
                c = hdr(0); o = 44 + c[3] * 5 + c[4] * 6 + c[5] + c[2] * 8 + c[1] + c[0]
            c = hdr(o); tl = 8 if raw[4] != 0 else 4
            first_is_dst[path] = raw[o + 44 + c[3] * (tl + 1) + 4] != 0
            z = zoneinfo.ZoneInfo.from_file(open(path, 'rb'))
            zones += 1
        except Exception as e:  # zoneinfo refuses a file the model reads
            print('zoneinfo cannot read', path, e); z = None; bad += 1
        continue
    if z is None:
        continue
    body, _, gl = line.rstrip('\n').partition('\t')
    parts = body.split(' ', 3)
    t, off, dst = int(parts[0]), int(parts[1]), int(parts[2])
    abbr = parts[3] if len(parts) > 3 else ''
    goff, _, gabbr = gl.partition(' ')
    glibc_agrees = gl != '' and int(goff) == off and gabbr == abbr
    try:
        d = (EPOCH + datetime.timedelta(seconds=t)).astimezone(z)
    except OverflowError:
        continue
    n += 1
    got = (int(d.utcoffset().total_seconds()), 1 if d.dst() else 0, d.tzname())
    # zoneinfo reports dst() as a timedelta; a DST type with zero saving is still "isdst" in the file
    if got[0] == off and got[2] == abbr:
        both += 1 if glibc_agrees else 0
        only_zoneinfo += 0 if glibc_agrees else 1
    elif glibc_agrees:
        only_glibc += 1
    else:
        # neither independent implementation agrees with the model
        bad += 1
        if '/testdata/zoneinfo/' in path:
            bad_shipped += 1
        if bad <= 10:
            print('DISAGREE', path, t, 'zoneinfo', got, 'glibc', gl, 'model', (off, dst, abbr))
print('validate_model: %d points in %d zones; model agrees with both references at %d, with Python zoneinfo only at %d, with glibc only at %d; with NEITHER at %d' % (n, zones, both, only_zoneinfo, only_glibc, bad))
# Gate: on the shipped zones (mainstream data, where both references are reliable) any point that neither reference
# confirms fails setup.  On the exotic zic-compiled zones both references have overlapping quirks in a few places
# (rule year picked by the UTC year on 1 January; two DST types sharing an abbreviation; see DESIGN.md 3.2), so a
# residue below 1 in 10 000 points is reported, not fatal; above it, setup fails.
fatal = bad_shipped > 0 or bad > max(20, n // 10000)
print('validate_model: gate %s (shipped-zone residue %d, total residue %d of %d)' % ('FAILED' if fatal else 'passed', bad_shipped, bad, n))
sys.exit(1 if fatal else 0)
