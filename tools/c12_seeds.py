#!/usr/bin/env python3
"""Seed corpus for the C12 fuzz campaign: shipped zone files (a spread of them) plus zic-compiled zones."""
import argparse, os, shutil, subprocess, sys
ap = argparse.ArgumentParser()
ap.add_argument('--out', required=True); ap.add_argument('--seed', type=int, default=1); ap.add_argument('--tier', default='quick')
a = ap.parse_args()
repo = os.environ.get('VERIF_REPO', '/repo')
files = []
for root, _, names in os.walk(os.path.join(repo, 'testdata', 'zoneinfo')):
    for n in sorted(names):
        p = os.path.join(root, n)
        try:
            if open(p, 'rb').read(4) == b'TZif':
                files.append(p)
        except OSError:
            pass
files.sort()
step = 1 if a.tier == 'thorough' else 6
for i, p in enumerate(files[::step]):
    shutil.copy(p, os.path.join(a.out, 'shipped-%04d' % i))
zd = os.path.join(a.out, '..', 'zicseed')
here = os.path.dirname(os.path.abspath(__file__))
subprocess.run([sys.executable, os.path.join(here, 'gen_zic.py'), '--seed', str(a.seed), '--count', '40', '--out', zd],
               stdout=subprocess.DEVNULL)
k = 0
for form in ('slim', 'fat'):
    d = os.path.join(zd, form, 'Gen')
    if os.path.isdir(d):
        for n in sorted(os.listdir(d)):
            shutil.copy(os.path.join(d, n), os.path.join(a.out, 'zic-%s-%s' % (form, n))); k += 1
print('seed corpus: %d shipped, %d zic' % (len(files[::step]), k))
