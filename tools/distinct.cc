// Counts distinct 64-bit keys over several binary files (union across shards).
#include <algorithm>
#include <cstdint>
#include <cstdio>
#include <vector>
int main(int argc, char** argv) {
  std::vector<uint64_t> all;
  for (int i = 1; i < argc; ++i) {
    FILE* f = fopen(argv[i], "rb");
    if (!f) continue;
    uint64_t buf[4096];
    size_t n;
    while ((n = fread(buf, sizeof(uint64_t), 4096, f)) > 0) all.insert(all.end(), buf, buf + n);
    fclose(f);
  }
  std::sort(all.begin(), all.end());
  all.erase(std::unique(all.begin(), all.end()), all.end());
  printf("%zu\n", all.size());
  return 0;
}
