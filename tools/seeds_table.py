#!/usr/bin/env python3
"""Regenerates the seeded-change table in DESIGN.md from seeded/*/meta.json, confirm.json, detection.json."""
import json, os, glob, re
root = os.path.join(os.path.dirname(os.path.abspath(__file__)), '..')
rows = []
for d in sorted(glob.glob(os.path.join(root, 'seeded', 'C*-*'))):
    name = os.path.basename(d)
    meta = json.load(open(os.path.join(d, 'meta.json')))
    det = {}
    try:
        det = json.load(open(os.path.join(d, 'detection.json')))
    except (OSError, ValueError):
        pass
    summ = meta.get('summary', '').replace('|', '/').replace('\n', ' ')
    if len(summ) > 150:
        summ = summ[:147] + '...'
    need = str(meta.get('needs_to_manifest', '')).replace('|', '/').replace('\n', ' ')
    if len(need) > 140:
        need = need[:137] + '...'
    if meta.get('status') == 'out_of_scope':
        res = 'not a violation of the property as written (unspecified behaviour, see text); ' + '%s by %s quick' % (det.get('result', 'not run'), det.get('check', name.split('-')[0]))
    elif meta.get('status') == 'retired':
        res = 'retired (harmless on the repaired tree)'
    else:
        res = '%s by %s quick (%ss)' % (det.get('result', 'not run'), det.get('check', name.split('-')[0]), det.get('seconds', '?'))
    for x in sorted(glob.glob(os.path.join(d, 'detection-*.json'))):
        try:
            o = json.load(open(x))
            m = re.search(r'-seed(\d+)\.json$', x)
            res += '; %s by %s %s%s (%ss)' % (o.get('result'), o.get('check'), o.get('tier', 'quick'), ' at VERIF_SEED=' + m.group(1) if m else '', o.get('seconds', '?'))
        except (OSError, ValueError):
            pass
    flags = ' (rebased)' if 'rebased' in meta and meta.get('status') != 'retired' else ''
    rows.append('| %s%s | %s | %s | %s |' % (name, flags, summ, need, res))
table = '| seed | change | needs to manifest | result |\n|---|---|---|---|\n' + '\n'.join(rows)
p = os.path.join(root, 'DESIGN.md')
s = open(p).read()
if 'SEEDS_TABLE_PLACEHOLDER' in s:
    s = s.replace('SEEDS_TABLE_PLACEHOLDER', '<!-- SEEDS:BEGIN -->\n' + table + '\n<!-- SEEDS:END -->')
else:
    s = re.sub(r'<!-- SEEDS:BEGIN -->.*?<!-- SEEDS:END -->', lambda m: '<!-- SEEDS:BEGIN -->\n' + table + '\n<!-- SEEDS:END -->', s, flags=re.S)
open(p, 'w').write(s)
print('seeds table: %d rows' % len(rows))
