#!/usr/bin/env python3
"""Generates random zic source (Zone/Rule lines) and compiles it with the system
zic in both -b slim and -b fat form: "TZif files of the kind zic produces",
taken literally.  Deterministic in --seed.  Zones zic rejects are skipped.

  gen_zic.py --seed N --count M --out DIR
"""
import argparse, os, random, shutil, subprocess, sys

MONTHS = ['Jan', 'Feb', 'Mar', 'Apr', 'May', 'Jun', 'Jul', 'Aug', 'Sep', 'Oct', 'Nov', 'Dec']
DAYS = ['Sun', 'Mon', 'Tue', 'Wed', 'Thu', 'Fri', 'Sat']


def hms(sec, sign=False):
    s = '-' if sec < 0 else ('+' if sign else '')
    sec = abs(sec)
    h, m, ss = sec // 3600, sec // 60 % 60, sec % 60
    if ss:
        return '%s%d:%02d:%02d' % (s, h, m, ss)
    if m:
        return '%s%d:%02d' % (s, h, m)
    return '%s%d:00' % (s, h)


def on_field(r):
    k = r.random()
    if k < 0.35:
        return 'last' + r.choice(DAYS)
    if k < 0.7:
        return '%s>=%d' % (r.choice(DAYS), r.choice([1, 8, 15, 22, 2, 9, 25]))
    if k < 0.8:
        return '%s<=%d' % (r.choice(DAYS), r.choice([7, 14, 21, 28, 25]))
    return str(r.choice([1, 1, 15, 28, 2, 10, 20, 27]))


def at_field(r):
    k = r.random()
    if k < 0.4:
        t = 7200
    elif k < 0.6:
        t = r.choice([0, 3600, 10800, 14400, 86400])
    elif k < 0.8:
        t = r.choice([0, 1, 2, 3, 23]) * 3600 + r.choice([0, 1800, 900, 2700, 60])
    elif k < 0.9:
        t = r.choice([-3600, -7200, -1800, 90000, 93600, 100800, 25 * 3600 + 1800])  # needs version 3
    else:
        t = r.randrange(0, 86400)
    return hms(t) + r.choice(['', '', '', 'w', 's', 'u', 'u'])


def gen_ruleset(r, name, y0):
    """A rule set with 1-3 epochs; the last one runs to 'max' (or ends, leaving permanent std)."""
    lines = []
    nep = r.choice([1, 1, 2, 2, 3])
    y = y0
    for e in range(nep):
        last = e == nep - 1
        y1 = 'max' if last and r.random() < 0.85 else str(y + r.choice([0, 1, 2, 5, 12, 30]))
        save = r.choice([3600, 3600, 3600, 3600, 1800, 7200, 1200, -3600])
        m1 = r.randrange(12)
        m2 = (m1 + r.choice([3, 4, 5, 6, 7, 8])) % 12
        start_year_edge = r.random() < 0.08
        if start_year_edge:
            m1 = r.choice([0, 11]); m2 = (m1 + 6) % 12
        l1, l2 = r.choice([('D', 'S'), ('S', '-'), ('DT', 'ST'), ('-', '-')])
        if save < 0:
            l1, l2 = l2, l1
        lines.append('Rule %s %d %s - %s %s %s %s %s' % (name, y, y1, MONTHS[m1], on_field(r), at_field(r), hms(save), l1))
        lines.append('Rule %s %d %s - %s %s %s 0 %s' % (name, y, y1, MONTHS[m2], on_field(r), at_field(r), l2))
        if y1 == 'max':
            break
        y = int(y1) + 1 + r.choice([0, 0, 1, 3])
    return lines


def gen_zone(r, idx):
    name = 'Gen/Z%04d' % idx
    lines = []
    neras = r.choice([1, 2, 2, 3, 3, 4, 5])
    year = r.choice([1850, 1880, 1883, 1900, 1911, 1920, 1935, 1947, 1970, 1985, 2000, 2015])
    base = r.choice(range(-12, 15)) * 3600 + r.choice([0, 0, 0, 1800, 2700, 900])
    eras = []
    rulesets = []
    for e in range(neras):
        last = e == neras - 1
        if e == 0 and r.random() < 0.7:
            off = base + r.randrange(-3599, 3600)  # LMT, sub-minute
            rules, fmt = '-', 'LMT'
        else:
            off = base + r.choice([0, 0, 0, 3600, -3600, 1800, -1800])
            k = r.random()
            if k < 0.55:
                rn = 'R%d_%d' % (idx, e)
                rulesets += gen_ruleset(r, rn, year - r.choice([0, 0, 1, 5]))
                rules = rn
                fmt = r.choice(['XX%sT', 'AB%sT', '%z', 'STD/DST', '+03/+04', 'GMT/BST'])  # >= 3 characters even with an empty letter
            elif k < 0.7:
                rules = hms(r.choice([3600, 1800, 7200]))  # fixed saving: permanent DST era
                fmt = r.choice(['XDT', '%z', 'SUM'])
            else:
                rules, fmt = '-', r.choice(['XST', '%z', 'EET', 'ABCD', '-00'])
        until = ''
        if not last:
            year += r.choice([1, 2, 3, 7, 15, 30, 40])
            until = str(year)
            k = r.random()
            if k < 0.5:
                until += ' %s' % r.choice(MONTHS)
                if k < 0.3:
                    until += ' %s' % r.choice(['1', '15', 'lastSun', 'Sun>=1', '28'])
                    if k < 0.15:
                        until += ' ' + at_field(r)
        eras.append((off, rules, fmt, until))
    lines += rulesets
    first = True
    for off, rules, fmt, until in eras:
        lines.append('%s %s %s %s %s' % (('Zone %s' % name) if first else '\t', hms(off), rules, fmt, until))
        first = False
    return name, '\n'.join(lines) + '\n'


def main():
    ap = argparse.ArgumentParser()
    ap.add_argument('--seed', type=int, default=1)
    ap.add_argument('--count', type=int, default=100)
    ap.add_argument('--out', required=True)
    a = ap.parse_args()
    zic = shutil.which('zic') or '/usr/sbin/zic'
    if not os.path.exists(zic):
        print('zic not available; zic zones: 0')
        return 0
    r = random.Random(a.seed * 7919 + 13)
    os.makedirs(a.out, exist_ok=True)
    srcdir = os.path.join(a.out, 'src')
    os.makedirs(srcdir, exist_ok=True)
    ok = rejected = 0
    for i in range(a.count):
        name, src = gen_zone(r, i)
        sp = os.path.join(srcdir, 'z%04d.zi' % i)
        open(sp, 'w').write(src)
        good = True
        # 1 zone in 7 is additionally range-limited (zic -r @lo/@hi): truncated tables, an explicit entry at each
        # cut point and an empty footer
        rng = []
        if r.random() < 0.15:
            lo = r.choice([-2000000000, -1000000000, 0, 100000000, 631152000])
            hi = lo + r.choice([400000000, 1300000000, 2500000000])
            rng = ['-r', '@%d/@%d' % (lo, hi)]
        for form in ('slim', 'fat'):
            d = os.path.join(a.out, form)
            p = subprocess.run([zic, '-b', form] + rng + ['-d', d, sp], stdout=subprocess.PIPE, stderr=subprocess.PIPE)
            if p.returncode != 0 or not os.path.exists(os.path.join(d, name)):
                good = False
        if good:
            ok += 1
        else:
            rejected += 1
            for form in ('slim', 'fat'):
                try:
                    os.remove(os.path.join(a.out, form, name))
                except OSError:
                    pass
    print('zic zones: %d compiled (x2 forms), %d rejected by zic' % (ok, rejected))
    return 0


if __name__ == '__main__':
    sys.exit(main())
