#!/bin/bash
# Confirms one seeded change independently: tools/confirm_seed.sh seeded/C01-a [lane]
# In a scratch worktree of /repo (outside /repo and /verif): patch applies, library builds,
# the existing test suite passes with it, the demo fails with it and passes without it.
# Writes <seed>/confirm.json.  The worktree is removed afterwards.
set -u
SEED=$(readlink -f "$1"); LANE=${2:-0}
WT=/tmp/seedwt-$LANE
LOG=$SEED/confirm.log
: > $LOG
git -C /repo worktree remove --force $WT >/dev/null 2>&1; rm -rf $WT
git -C /repo worktree add -q --detach $WT HEAD >>$LOG 2>&1 || { echo "worktree failed"; exit 2; }
cd $WT
res() { echo "$1" >> $LOG; }
# a demo whose own build line asks for AddressSanitizer (memory errors that do not change results) gets it here too
SAN=""; head -5 $SEED/demo.cc | grep -q -- "-fsanitize=address" && SAN="-g -fsanitize=address -fno-omit-frame-pointer"
demo_build() {
  g++ -std=c++17 -O1 $SAN -I $WT/include -I $WT/src $SEED/demo.cc $WT/src/time_zone_{fixed,format,if,impl,info,libc,lookup,posix}.cc \
    $WT/src/zone_info_source.cc $WT/src/civil_time_detail.cc -lpthread -o $WT/demo_bin >>$LOG 2>&1
}
demo_run() { ( cd $WT && TZDIR=$WT/testdata/zoneinfo timeout 600 ./demo_bin >>$LOG 2>&1 ); }
# the demo may hard-code its original scratch path (/tmp/seed/Cxx): provide it as a symlink
ORIG=$(grep -o '/tmp/seed[23]\?/C[0-9][0-9]' $SEED/demo.cc | head -1)
if [ -n "$ORIG" ] && [ -d "$ORIG" ] && [ ! -L "$ORIG" ]; then ORIG=""; fi   # the author's worktree still exists: use it
if [ -n "$ORIG" ]; then mkdir -p $(dirname $ORIG); ln -sfn $WT $ORIG; fi
# 1. without the change
demo_build; B0=$?; demo_run; R0=$?
# 2. with the change
git apply $SEED/patch.diff >>$LOG 2>&1; AP=$?
cmake -G Ninja -B _build -S . -DBUILD_BENCHMARK=OFF >>$LOG 2>&1 && cmake --build _build >>$LOG 2>&1; BL=$?
ctest --test-dir _build -j8 >>$LOG 2>&1; CT=$?
demo_build; B1=$?; demo_run; R1=$?
OK=false
if [ $AP = 0 ] && [ $BL = 0 ] && [ $CT = 0 ] && [ $B0 = 0 ] && [ $R0 = 0 ] && [ $B1 = 0 ] && [ $R1 != 0 ]; then OK=true; fi
cat > $SEED/confirm.json <<J
{"patch_applies": $([ $AP = 0 ] && echo true || echo false), "library_builds_with_change": $([ $BL = 0 ] && echo true || echo false),
 "existing_tests_pass_with_change": $([ $CT = 0 ] && echo true || echo false),
 "demo_exit_without_change": $R0, "demo_exit_with_change": $R1, "confirmed": $OK,
 "repo_head": "$(git -C /repo rev-parse --short HEAD)",
 "ran": ["git worktree add (scratch)", "g++ demo (clean) && run", "git apply patch.diff", "cmake --build && ctest -j8", "g++ demo (patched) && run"]}
J
[ -n "$ORIG" ] && rm -f $ORIG
cd /; git -C /repo worktree remove --force $WT >/dev/null 2>&1; rm -rf $WT
echo "$(basename $SEED) confirmed=$OK (apply=$AP build=$BL ctest=$CT demo_clean=$R0 demo_patched=$R1)"
