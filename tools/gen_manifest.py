#!/usr/bin/env python3
"""Regenerates MANIFEST.json from tools/manifest_src.py (single source of truth)."""
import json, os, sys
here = os.path.dirname(os.path.abspath(__file__))
sys.path.insert(0, here)
from manifest_src import MANIFEST
with open(os.path.join(here, '..', 'MANIFEST.json'), 'w') as f:
    json.dump(MANIFEST, f, indent=1)
    f.write('\n')
print('wrote MANIFEST.json with %d checks, %d not_applicable' %
      (len(MANIFEST['checks']), len(MANIFEST.get('not_applicable', []))))
