#!/bin/bash
# Stages the deliverables of seed-writing agents into /verif/seeded and confirms them independently:
#   tools/stage_seeds.sh <agent-root, e.g. /tmp/seed3> <letters for a,b,... e.g. "f g"> <ID ...>
ROOT=$1; LETTERS=($2); shift 2
cd /verif
for ID in "$@"; do
  i=0
  for x in a b c; do
    src=$ROOT/$ID/seed_out/$x
    [ -f $src/patch.diff ] || continue
    dst=seeded/$ID-${LETTERS[$i]}; i=$((i+1))
    mkdir -p $dst
    cp $src/patch.diff $src/demo.cc $src/meta.json $dst/
    tools/confirm_seed.sh $dst $ID
  done
done
