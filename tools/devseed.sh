#!/bin/bash
# dev helper: run one seeded change against a check of THIS tree: tools/devseed.sh <seed> [check-id]
S=$1; ID=${2:-${S%%-*}}
WT=/tmp/devseed-repo-$$
git -C /repo worktree remove --force $WT >/dev/null 2>&1; rm -rf $WT
git -C /repo worktree add -q --detach $WT HEAD || exit 2
git -C $WT apply /verif/seeded/$S/patch.diff || { echo "$S patch-does-not-apply"; exit 2; }
cd $(dirname $0)/..
T0=$(date +%s)
OUT=$(VERIF_SKIP_SEED_REPLAYS=1 VERIF_EVIDENCE_DIR=/tmp/devseed-ev-$$ VERIF_NEWREPLAY_DIR=/tmp/devseed-nr-$$ VERIF_REPO=$WT ./check $ID --tier quick 2>&1); RC=$?
T1=$(date +%s)
case $RC in 1) R=detected;; 0) R=missed;; *) R=harness-error;; esac
echo "$S $ID $R $((T1-T0))s $(echo "$OUT" | grep -m1 '^  why:' | cut -c1-260)"
[ "$R" = harness-error ] && echo "$OUT" | grep -v "^    #" | tail -5
git -C /repo worktree remove --force $WT >/dev/null 2>&1; rm -rf $WT /tmp/devseed-ev-$$ /tmp/devseed-nr-$$
