#!/bin/bash
# False-alarm control: property-preserving refactorings of cctz (benign/<name>/patch.diff) must NOT raise any alarm.
# Applies each in an isolated worktree (VERIF_REPO) and runs the quick tier of the checks that exercise the touched code.
cd /verif
WT=/tmp/benignrun-repo
git -C /repo worktree remove --force $WT >/dev/null 2>&1; rm -rf $WT
git -C /repo worktree add -q --detach $WT HEAD || exit 2
export VERIF_EVIDENCE_DIR=/tmp/benignrun-evidence VERIF_NEWREPLAY_DIR=/tmp/benignrun-replays VERIF_REPO=$WT
declare -A CHECKS=(
 [longer-rule-table]="C01 C02 C03 C06 C10 C11 C14 C12"
 [no-hints]="C01 C02 C03 C06 C11 C13 C14"
 [no-redundant-fixed-transitions]="C15 C10 C07 C08 C18 C11 C09"
 [bigger-strftime-buffer]="C08 C07 C09"
 [load-under-map-lock-free-recheck]="C20 C13 C14 C19"
 [posix-abbr-scan-rewrite]="C16 C12 C01"
 [no-prev-year-shortcut]="C04 C05 C17 C01 C07"
 [correct-fixed-zone-thread-cache]="C15 C19 C13 C07"
 [correct-posix-spec-cache]="C16 C12 C01 C02"
)
RESULT=benign/RESULTS.txt; [ $# -eq 0 ] && : > $RESULT
for b in ${@:-$(ls benign | grep -v RESULTS)}; do
  [ -f benign/$b/patch.diff ] || continue
  git -C $WT checkout -q -- . && git -C $WT apply $(readlink -f benign/$b/patch.diff) || { echo "$b patch-does-not-apply" | tee -a $RESULT; continue; }
  for ID in ${CHECKS[$b]}; do
    OUT=$(./check $ID --tier quick 2>&1); RC=$?
    case $RC in 0) R=quiet;; 1) R="FALSE-ALARM: $(echo "$OUT" | grep -m1 '^  why:' | cut -c1-200)";; *) R="harness-error";; esac
    echo "$b $ID $R" | tee -a $RESULT
  done
done
git -C /repo worktree remove --force $WT >/dev/null 2>&1; rm -rf $WT $VERIF_EVIDENCE_DIR $VERIF_NEWREPLAY_DIR
