#!/bin/bash
# tools/try_seed.sh <seed-dir> <check-id> [tier] : apply a seeded change to /repo's working tree,
# run the check, undo the change.  Prints DETECTED / MISSED.
SEED=$1; ID=$2; TIER=${3:-quick}
cd /verif
if ! git -C /repo diff --quiet; then echo "/repo working tree is dirty; refusing"; exit 2; fi
git -C /repo apply $(readlink -f $SEED/patch.diff) || { echo "patch does not apply"; exit 2; }
cp evidence/$ID.json /tmp/evidence-$ID.bak 2>/dev/null
OUT=$(./check $ID --tier $TIER 2>&1); RC=$?
cp /tmp/evidence-$ID.bak evidence/$ID.json 2>/dev/null; rm -f /tmp/evidence-$ID.bak
git -C /repo checkout -- .
echo "$OUT" | grep -E "^(VIOLATION|  why|KNOWN|HARNESS|$ID )" | head -8
if [ $RC = 1 ]; then echo "RESULT $(basename $SEED) vs $ID: DETECTED"; elif [ $RC = 0 ]; then echo "RESULT $(basename $SEED) vs $ID: MISSED"; else echo "RESULT $(basename $SEED) vs $ID: HARNESS-ERROR rc=$RC"; echo "$OUT" | tail -20; fi
rm -rf /verif/replays/$ID/new
