#!/bin/bash
# Runs every live seeded change against the check of the property it breaks (and, with extra
# arguments "seed:ID", against other checks), in an isolated scratch worktree of /repo:
#   tools/run_seeds.sh [tier] [only-this-seed ...]
# Results: seeded/<seed>/detection.json and a table on stdout.  /repo itself is never touched.
TIER=${1:-quick}; shift
cd /verif
WT=/tmp/seedrun-repo
git -C /repo worktree remove --force $WT >/dev/null 2>&1; rm -rf $WT
git -C /repo worktree add -q --detach $WT HEAD || exit 2
export VERIF_SKIP_SEED_REPLAYS=1 VERIF_EVIDENCE_DIR=/tmp/seedrun-evidence VERIF_NEWREPLAY_DIR=/tmp/seedrun-replays VERIF_REPO=$WT
rm -rf $VERIF_EVIDENCE_DIR $VERIF_NEWREPLAY_DIR
SEEDS=${@:-$(ls seeded)}
# a run at another VERIF_SEED is recorded next to the seed-1 result, not over it
SEEDSFX=""; [ -n "${VERIF_SEED:-}" ] && [ "${VERIF_SEED}" != 1 ] && SEEDSFX="-seed${VERIF_SEED}"
for spec in $SEEDS; do
  s=${spec%%:*}
  d=seeded/$s
  [ -f $d/patch.diff ] || continue
  if grep -q '"status": "retired"' $d/meta.json 2>/dev/null; then echo "$s retired"; continue; fi
  ID=${s%%-*}
  CROSS=""
  case $spec in *:*) ID=${spec##*:}; CROSS=1;; esac
  git -C $WT checkout -q -- . && git -C $WT apply $(readlink -f $d/patch.diff) || { echo "$s patch-does-not-apply"; continue; }
  T0=$(date +%s)
  OUT=$(./check $ID --tier $TIER 2>&1); RC=$?
  T1=$(date +%s)
  WHY=$(echo "$OUT" | grep -m1 "^  why:" | cut -c1-300 | sed 's/"/\\"/g; s/\\x/\\\\x/g')
  case $RC in 1) RES=detected;; 0) RES=missed;; *) RES=harness-error;; esac
  printf '{"seed": "%s", "check": "%s", "tier": "%s", "result": "%s", "seconds": %d, "repo_head": "%s", "first_reason": "%s"}\n' \
    "$s" "$ID" "$TIER" "$RES" $((T1-T0)) "$(git -C /repo rev-parse --short HEAD)" "$WHY" > $d/detection${CROSS:+-$ID}${SEEDSFX}.json
  # keep the (shrunk) failing case as a regression replay: it must pass on the unchanged tree and fails with this change
  if [ "$RES" = detected ] && [ -n "${KEEP_CASES:-}" ]; then
    f=$(ls $VERIF_NEWREPLAY_DIR/$ID/*.case 2>/dev/null | grep -v -e crash -e fuzz | head -1)
    [ -z "$f" ] && f=$(ls $VERIF_NEWREPLAY_DIR/$ID/*.case 2>/dev/null | head -1)
    if [ -n "$f" ] && ! grep -q "$WT" "$f"; then mkdir -p replays/$ID; cp "$f" replays/$ID/seed-$s.case; fi
  fi
  rm -rf $VERIF_NEWREPLAY_DIR/$ID
  echo "$s $ID $RES $((T1-T0))s"
done
git -C /repo worktree remove --force $WT >/dev/null 2>&1; rm -rf $WT $VERIF_EVIDENCE_DIR $VERIF_NEWREPLAY_DIR
