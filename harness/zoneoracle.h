// zoneoracle: the two model-backed oracles shared by the zone checks.
//   check_instant: lookup(time_point) vs zonemodel::type_at      (property C01)
//   check_civil:   lookup(civil_second) vs civil_to_instants      (property C02)
// plus the per-zone list of anchored civil probe points.
#pragma once
#include "zonecheck.h"

namespace zo {
using vf::i128;
static vf::Evidence* EV = nullptr;
static const vf::Args* ARGS = nullptr;

inline bool check_instant(const zp::Zone& z, const zp::Handle& h, int64_t t, std::string* why, bool count = true) {
  const zm::Model& m = z.model;
  if (m.pre_first_unspecified && !m.f.trans.empty() && t < m.f.trans.front().t) {
    if (count) EV->unspec("before_first_transition_with_DST_type0_referenced");
    // still executed (memory safety / UB), result not compared
    (void)h.lookup(t);
    return true;
  }
  const zm::LT exp = m.type_at(t);
  const auto al = h.lookup(t);
  const refcal::Civil ec = refcal::from_secs((i128)t + exp.utoff);
  const refcal::Civil gc = zp::civ(al.cs);
  if (al.offset != exp.utoff || al.is_dst != exp.isdst || std::string(al.abbr) != exp.abbr || gc != ec) {
    *why = "lookup(" + vf::i64_str(t) + "): got offset=" + std::to_string(al.offset) + " dst=" + std::to_string(al.is_dst) +
           " abbr=" + al.abbr + " cs=" + refcal::str(gc) + "; TZif data says offset=" + std::to_string(exp.utoff) +
           " dst=" + std::to_string(exp.isdst) + " abbr=" + exp.abbr + " cs=" + refcal::str(ec);
    return false;
  }
  return true;
}


inline const char* kind_name(int k) { return k == 0 ? "UNIQUE" : k == 1 ? "SKIPPED" : "REPEATED"; }

// csecs: the civil second expressed as seconds of the same fields read in UTC
inline bool check_civil(const zp::Zone& z, const zp::Handle& h, i128 csecs, std::string* why, std::string* cls = nullptr) {
  const zm::Model& m = z.model;
  const refcal::Civil c = refcal::from_secs(csecs);
  if (!zp::cs_fits(c)) return true;
  const cctz::civil_second cs = zp::cs_of(c);
  const zm::Model::CivilAnswer a = m.civil_to_instants(csecs);
  const auto cl = h.lookup(cs);  // always executed: totality / UB is part of the property family
  if (a.crowded && a.kind != 0 && ARGS && ARGS->excluded("crowded_change")) {
    EV->excl("crowded_change"); if (cls) *cls = "excluded"; return true;   // known finding R8
  }
  if (!a.consistent) { EV->unspec("civil_time_near_crowded_changes(model_inconsistent)"); if (cls) *cls = "unspecified"; return true; }
  // legacy files (type 0 DST and referenced): the type before the first transition is outside the property, and so
  // is every civil time whose reading can involve it (offsets span < 48 h)
  if (m.pre_first_unspecified && !m.f.trans.empty() && csecs - 2 * 86400 <= (i128)m.f.trans.front().t) {
    // the model is silent here, but the two directions of cctz itself must still agree: an instant returned for a
    // civil second that exists displays that civil second, and a skipped one is displayed by no instant around it
    auto shows = [&](int64_t t) { return h.lookup(t).cs == cs; };
    const int64_t p = zp::unix_of(cl.pre), tr = zp::unix_of(cl.trans), q = zp::unix_of(cl.post);
    bool ok = true;
    const bool saturated = p == INT64_MIN || p == INT64_MAX || tr == INT64_MIN || tr == INT64_MAX || q == INT64_MIN || q == INT64_MAX;
    if (saturated) ok = true;  // answers clamped to the time_point range display other civil seconds, legitimately
    else if (cl.kind == cctz::time_zone::civil_lookup::UNIQUE) ok = shows(p) && p == tr && p == q;
    else if (cl.kind == cctz::time_zone::civil_lookup::REPEATED) ok = shows(p) && shows(q) && p < q;
    else ok = !shows(p) && !shows(q) && (tr == INT64_MIN || (h.lookup(tr - 1).cs < cs && cs < h.lookup(tr).cs));
    if (!ok) {
      *why = "lookup(" + refcal::str(c) + ") = kind " + std::to_string((int)cl.kind) + " pre=" + vf::i64_str(p) + " trans=" + vf::i64_str(tr) + " post=" + vf::i64_str(q) +
             " disagrees with lookup(time_point) of the same zone (first transition of a file whose type 0 is DST and referenced)";
      return false;
    }
    EV->unspec("before_first_transition_with_DST_type0_referenced(relations_only)"); if (cls) *cls = "unspecified"; return true;
  }
  const int64_t epre = refcal::clamp64(a.pre), etr = refcal::clamp64(a.trans), epost = refcal::clamp64(a.post);
  const int64_t gpre = zp::unix_of(cl.pre), gtr = zp::unix_of(cl.trans), gpost = zp::unix_of(cl.post);
  const bool all_sat = (!refcal::fits64(a.pre) && !refcal::fits64(a.trans) && !refcal::fits64(a.post));
  const int gk = cl.kind == cctz::time_zone::civil_lookup::UNIQUE ? 0 : cl.kind == cctz::time_zone::civil_lookup::SKIPPED ? 1 : 2;
  if (cls) *cls = all_sat ? "saturated" : kind_name(a.kind);
  bool bad = gpre != epre || gtr != etr || gpost != epost;
  if (!all_sat && gk != a.kind) bad = true;  // no representable instant is involved when everything saturates
  if (bad) {
    *why = "lookup(" + refcal::str(c) + "): got " + kind_name(gk) + " pre=" + vf::i64_str(gpre) + " trans=" + vf::i64_str(gtr) +
           " post=" + vf::i64_str(gpost) + "; data says " + kind_name(a.kind) + " pre=" + vf::i64_str(epre) + " trans=" +
           vf::i64_str(etr) + " post=" + vf::i64_str(epost) + " (" + std::to_string(a.solutions) + " instant(s) display it)";
    return false;
  }
  return true;
}


// Anchored civil probe points of a zone: (civil second as seconds-if-UTC, anchor index, non-trivial?)
struct CivilPoint { i128 csecs; int tag; bool nontrivial; };
inline std::vector<CivilPoint> civil_points(const zm::Model& m, const zp::Anchors& an) {
  std::vector<CivilPoint> out;
  for (size_t i = 0; i < an.instants.size(); ++i) {
    const i128 A = an.instants[i];
    const std::vector<zm::Change> chs = m.changes(A, A);
    const bool outside = m.f.trans.empty() || A < m.f.trans.front().t || A >= m.f.trans.back().t;
    if (chs.empty()) {
      const i128 base = A + m.type_at(A).utoff;
      for (i128 d : {(i128)0, (i128)-1, (i128)1, (i128)-86400, (i128)86400, (i128)3600, (i128)-3600})
        out.push_back(CivilPoint{base + d, (int)i, outside});
      continue;
    }
    for (auto& ch : chs) {
      const i128 lo = ch.t + std::min(ch.before.utoff, ch.after.utoff), hi = ch.t + std::max(ch.before.utoff, ch.after.utoff);
      for (int k = -2; k <= 2; ++k) { out.push_back(CivilPoint{lo + k, (int)i, true}); out.push_back(CivilPoint{hi + k, (int)i, true}); }
      out.push_back(CivilPoint{lo + (hi - lo) / 2, (int)i, true});
      if (hi - lo <= 90) for (i128 x = lo; x < hi; ++x) out.push_back(CivilPoint{x, (int)i, true});
      else for (int k = 3; k < 40; k += 7) { out.push_back(CivilPoint{lo + k * 61, (int)i, true}); out.push_back(CivilPoint{hi - k * 61, (int)i, true}); }
      out.push_back(CivilPoint{lo - 86400, (int)i, true}); out.push_back(CivilPoint{hi + 86400, (int)i, true});
    }
  }
  const i128 cmin = refcal::to_secs(refcal::Civil{refcal::kI64Min, 1, 1, 0, 0, 0});
  const i128 cmax = refcal::to_secs(refcal::Civil{refcal::kI64Max, 12, 31, 23, 59, 59});
  for (i128 k : {(i128)0, (i128)1, (i128)59, (i128)86400, (i128)86400 * 366}) {
    out.push_back(CivilPoint{cmin + k, -1, true});
    out.push_back(CivilPoint{cmax - k, -2, true});
  }
  return out;
}
inline std::string point_tag(const zp::Anchors& an, int tag) {
  return tag == -1 ? "civil_min" : tag == -2 ? "civil_max" : an.tags[tag];
}
}  // namespace zo
