// C11: next_transition / prev_transition enumerate exactly the zone's real
// changes.  Oracle: the model's change points at which (offset, isdst, abbr)
// actually changes; beyond the recorded transitions the point where cctz stops
// reporting rule-generated changes is unspecified (time_zone.h), so there the
// check demands: everything reported is the model's next/previous real change,
// and once next_transition answered false it stays false.
#include "zoneoracle.h"

using vf::i128;
static vf::Evidence*& EV = zo::EV;

struct Real { i128 t; zm::LT before, after; bool recorded; };

// real changes (model) in [lo, hi]
static std::vector<Real> real_changes(const zm::Model& m, i128 lo, i128 hi) {
  std::vector<Real> out;
  for (auto& c : m.changes(lo, hi)) {
    if (c.recorded && c.t <= -((i128)1 << 59)) continue;  // pre-2018 "big bang" sentinel entry, never a transition
    if (c.before != c.after) out.push_back(Real{c.t, c.before, c.after, c.recorded});
  }
  return out;
}
// real recorded changes of the zone being checked (computed once per zone)
static std::vector<Real> g_rec;
static void prepare_zone(const zm::Model& m) {
  g_rec.clear();
  if (!m.f.trans.empty()) g_rec = real_changes(m, m.f.trans.front().t, m.f.trans.back().t);
  // real_changes() also yields rule changes inside that window: keep recorded ones only
  g_rec.erase(std::remove_if(g_rec.begin(), g_rec.end(), [](const Real& r) { return !r.recorded; }), g_rec.end());
}
static bool model_next(const zm::Model& m, i128 t, Real* r) {
  auto it = std::upper_bound(g_rec.begin(), g_rec.end(), t, [](i128 v, const Real& x) { return v < x.t; });
  if (it != g_rec.end()) { *r = *it; return true; }
  if (!m.has_rule || m.f.trans.empty()) return false;
  i128 lo = std::max<i128>(t, m.f.trans.back().t) + 1;
  for (int k = 0; k < 4; ++k) {  // a rule zone changes at least once a year unless the rule is degenerate
    auto v = real_changes(m, lo, lo + (i128)86400 * 400);
    if (!v.empty()) { *r = v.front(); return true; }
    lo += (i128)86400 * 400 + 1;
  }
  return false;
}
static bool model_prev(const zm::Model& m, i128 t, Real* r) {
  if (m.f.trans.empty()) return false;
  const i128 lastrec = m.f.trans.back().t;
  if (m.has_rule && t - 1 > lastrec) {
    i128 hi = t - 1;
    for (int k = 0; k < 4 && hi > lastrec; ++k) {
      const i128 lo = std::max(lastrec + 1, hi - (i128)86400 * 400);
      auto v = real_changes(m, lo, hi);
      if (!v.empty()) { *r = v.back(); return true; }
      hi = lo - 1;
    }
  }
  auto it = std::lower_bound(g_rec.begin(), g_rec.end(), t, [](const Real& x, i128 v) { return x.t < v; });
  if (it == g_rec.begin()) return false;
  *r = *(it - 1);
  return true;
}

static refcal::Civil civil_at(i128 t, int32_t off) { return refcal::from_secs(t + off); }

// does the reported civil_transition describe the model change r ?
static bool matches(const cctz::time_zone::civil_transition& tr, const Real& r) {
  const refcal::Civil to = civil_at(r.t, r.after.utoff);
  const refcal::Civil from = refcal::from_secs(r.t - 1 + r.before.utoff + 1);
  return zp::civ(tr.to) == to && zp::civ(tr.from) == from;
}
static std::string show(const cctz::time_zone::civil_transition& tr) {
  return refcal::str(zp::civ(tr.from)) + " -> " + refcal::str(zp::civ(tr.to));
}
static std::string show(const Real& r) {
  return "T=" + vf::i128_str(r.t) + " " + refcal::str(refcal::from_secs(r.t + r.before.utoff)) + " -> " + refcal::str(civil_at(r.t, r.after.utoff));
}

// The templated overloads next_transition(time_point<D>) / prev_transition(time_point<D>) with a sub-second D:
// changes happen at whole seconds, so for a query instant t + f (0 < f < 1 s) "strictly after" means after t
// (= next_transition(t)) and "strictly before" means at or before t (= prev_transition(t + 1)).  The whole-second
// answers are what check_query() compares with the model; this relates the sub-second overloads to them.
static cctz::time_zone g_pub; static bool g_have_pub = false;
template <typename D>
static bool check_subsecond_as(int64_t t, int64_t frac, const char* dname, std::string* why) {
  using TP = cctz::time_point<D>;
  const int64_t per = D::period::den / D::period::num;  // units per second
  // representable? (t*per + frac in int64)
  if (t > INT64_MAX / per - 2 || t < INT64_MIN / per + 2) return true;
  const TP tp = TP(D(t * per + frac));
  cctz::time_zone::civil_transition a, b;
  const bool gn = g_pub.next_transition(tp, &a), en = g_pub.next_transition(zp::tp(t), &b);
  EV->eval(); EV->cls("subsecond_query");
  if (gn != en || (gn && (a.from != b.from || a.to != b.to))) {
    *why = std::string("next_transition(time_point<") + dname + ">) at " + vf::i64_str(t) + " s + " + vf::i64_str(frac) + "/" + vf::i64_str(per) +
           " differs from next_transition(" + vf::i64_str(t) + " s): " + (gn ? show(a) : std::string("false")) + " vs " + (en ? show(b) : std::string("false"));
    return false;
  }
  const bool gp = g_pub.prev_transition(tp, &a), ep = g_pub.prev_transition(zp::tp(t + 1), &b);
  if (gp != ep || (gp && (a.from != b.from || a.to != b.to))) {
    *why = std::string("prev_transition(time_point<") + dname + ">) at " + vf::i64_str(t) + " s + " + vf::i64_str(frac) + "/" + vf::i64_str(per) +
           " is not the latest change strictly before it (= prev_transition(" + vf::i64_str(t + 1) + " s)): " + (gp ? show(a) : std::string("false")) + " vs " + (ep ? show(b) : std::string("false"));
    return false;
  }
  return true;
}
static bool check_subsecond(int64_t t, std::string* why) {
  if (!g_have_pub || t == INT64_MAX) return true;
  const uint64_t hsh = vf::mix((uint64_t)t, 0x5b5ecULL);
  switch (hsh % 3) {
    case 0: { const int64_t f[] = {1, 500, 999}; return check_subsecond_as<std::chrono::milliseconds>(t, f[(hsh >> 8) % 3], "milliseconds", why); }
    case 1: { const int64_t f[] = {1, 500000, 999999}; return check_subsecond_as<std::chrono::microseconds>(t, f[(hsh >> 8) % 3], "microseconds", why); }
    default: { const int64_t f[] = {1, 500000000, 999999999}; return check_subsecond_as<std::chrono::nanoseconds>(t, f[(hsh >> 8) % 3], "nanoseconds", why); }
  }
}

// one query instant: next and prev
static bool check_query(const zp::Zone& z, const zp::Handle& h, int64_t t, std::string* why) {
  const zm::Model& m = z.model;
  cctz::time_zone::civil_transition tr;
  Real r;
  // --- next
  const bool gn = h.next(t, &tr);
  const bool en = model_next(m, t, &r);
  if (t == INT64_MAX && gn) { *why = "next_transition(max()) returned true"; return false; }
  const bool legacy = m.pre_first_unspecified;  // the model does not know the type in force before the first transition
  auto first_change = [&](const Real& x) { return legacy && !m.f.trans.empty() && x.t <= m.f.trans.front().t; };
  // the instant of a change cctz reports, from cctz's own lookups (legacy files only: is it the first transition of
  // the file?  Whether anything changes there depends on the type in force before it, which the model does not know:
  // cctz may report it where the model sees none, and the other way round)
  auto reported_at_first = [&](const cctz::time_zone::civil_transition& x) {
    if (!legacy || m.f.trans.empty()) return false;
    const auto cl = h.lookup(x.to);
    return zp::unix_of(cl.kind == cctz::time_zone::civil_lookup::UNIQUE ? cl.pre : cl.trans) == m.f.trans.front().t;
  };
  if (gn && legacy && (!en || first_change(r) || !refcal::fits64(r.t) || reported_at_first(tr))) {
    // only the clauses that involve cctz alone: from/to agree with lookup() around the reported change
    const auto cl = h.lookup(tr.to);
    const int64_t T = zp::unix_of(cl.kind == cctz::time_zone::civil_lookup::UNIQUE ? cl.pre : cl.trans);
    const auto a = h.lookup(T - 1), b = h.lookup(T);
    if (T > INT64_MIN && (b.cs != tr.to || a.cs + 1 != tr.from)) { *why = "from/to of " + show(tr) + " disagree with lookup() at the change (legacy type-0 file)"; return false; }
    if (T > INT64_MIN && a.offset == b.offset && a.is_dst == b.is_dst && std::string(a.abbr) == b.abbr) { *why = "lookup() does not differ across reported transition " + show(tr) + " (legacy type-0 file)"; return false; }
    if (T <= t) { *why = "next_transition(" + vf::i64_str(t) + ") reported a change that is not strictly later: " + show(tr) + " (legacy type-0 file)"; return false; }
    EV->unspec("first_change_of_legacy_type0_file(model_silent)");
  } else if (gn) {
    if (!en || !matches(tr, r)) {
      *why = "next_transition(" + vf::i64_str(t) + ") reported " + show(tr) + (en ? "; the next real change is " + show(r) : "; the zone has no later change");
      return false;
    }
    if (!refcal::fits64(r.t)) { *why = "next_transition reported a change beyond the time_point range"; return false; }
    // lookup() differs across the transition and matches from/to
    const auto a = h.lookup((int64_t)r.t - 1), b = h.lookup((int64_t)r.t);
    if (a.offset == b.offset && a.is_dst == b.is_dst && std::string(a.abbr) == b.abbr) { *why = "lookup() does not differ across reported transition " + show(tr); return false; }
    if (b.cs != tr.to || a.cs + 1 != tr.from) { *why = "from/to of " + show(tr) + " disagree with lookup() at the change"; return false; }
  } else if (en && first_change(r)) {
    EV->unspec("first_change_of_legacy_type0_file(model_silent)");
  } else if (en && r.recorded) {
    *why = "next_transition(" + vf::i64_str(t) + ") returned false; the file records a later real change " + show(r);
    return false;
  } else if (en) {
    EV->cls("next_false_in_rule_generated_future(unspecified_when)");
  }
  // --- prev
  const bool gp = h.prev(t, &tr);
  const bool ep = model_prev(m, t, &r);
  if (t == INT64_MIN && gp) { *why = "prev_transition(min()) returned true"; return false; }
  if (gp && legacy && (!ep || first_change(r) || reported_at_first(tr))) {
    const auto cl = h.lookup(tr.to);
    const int64_t T = zp::unix_of(cl.kind == cctz::time_zone::civil_lookup::UNIQUE ? cl.pre : cl.trans);
    const auto a = h.lookup(T - 1), b = h.lookup(T);
    if (T > INT64_MIN && (b.cs != tr.to || a.cs + 1 != tr.from)) { *why = "from/to of " + show(tr) + " disagree with lookup() at the change (legacy type-0 file, prev)"; return false; }
    if (T > INT64_MIN && a.offset == b.offset && a.is_dst == b.is_dst && std::string(a.abbr) == b.abbr) { *why = "lookup() does not differ across reported transition " + show(tr) + " (legacy type-0 file, prev)"; return false; }
    if (T >= t) { *why = "prev_transition(" + vf::i64_str(t) + ") reported a change that is not strictly earlier: " + show(tr) + " (legacy type-0 file)"; return false; }
  } else if (gp) {
    if (!ep) { *why = "prev_transition(" + vf::i64_str(t) + ") reported " + show(tr) + " but the zone has no earlier change"; return false; }
    if (!matches(tr, r)) {
      // allowed only for a distant t: then the reported one must be the last transition cctz knows (a real rule change)
      bool ok = false;
      if (!r.recorded) {
        // find the model change that the report describes: it must be real, rule-generated or the last recorded, and have no successor in cctz
        const auto cl = h.lookup(tr.to);
        const int64_t T = zp::unix_of(cl.trans);
        auto v = real_changes(m, T, T);
        cctz::time_zone::civil_transition nx;
        if (!v.empty() && matches(tr, v.front()) && !h.next(T, &nx)) ok = true;
        if (ok) EV->cls("prev_reports_table_end_for_distant_t(unspecified)");
      }
      if (!ok) { *why = "prev_transition(" + vf::i64_str(t) + ") reported " + show(tr) + "; the previous real change is " + show(r); return false; }
    }
  } else if (ep && first_change(r)) {
    EV->unspec("first_change_of_legacy_type0_file(model_silent)");
  } else if (ep) {
    *why = "prev_transition(" + vf::i64_str(t) + ") returned false; the previous real change is " + show(r);
    return false;
  }
  return check_subsecond(t, why);
}

// forward chain from min() and backward chain from max() enumerate the same set
static bool check_chains(const zp::Zone& z, const zp::Handle& h, std::string* why, size_t* count) {
  std::vector<std::pair<refcal::Civil, refcal::Civil>> fwd, bwd;
  cctz::time_zone::civil_transition tr;
  int64_t t = INT64_MIN;
  for (int guard = 0; guard < 5000 && h.next(t, &tr); ++guard) {
    fwd.push_back({zp::civ(tr.from), zp::civ(tr.to)});
    const int64_t T = zp::unix_of(h.lookup(tr.to).trans);
    // the instant of the change: lookup(to) is UNIQUE/REPEATED-post for a gap/overlap; derive via from/to with lookups
    int64_t cand = T;
    if (h.lookup(cand).cs != tr.to) {  // overlap: 'to' is displayed twice; the change is the later one
      const auto cl = h.lookup(tr.to);
      cand = zp::unix_of(cl.post);
      if (cl.kind == cctz::time_zone::civil_lookup::REPEATED) cand = zp::unix_of(cl.trans);
    }
    if (cand <= t && guard > 0) { *why = "next_transition chain does not advance at " + show(tr); return false; }
    t = cand;
  }
  t = INT64_MAX;
  for (int guard = 0; guard < 5000 && h.prev(t, &tr); ++guard) {
    bwd.push_back({zp::civ(tr.from), zp::civ(tr.to)});
    const auto cl = h.lookup(tr.to);
    int64_t cand = zp::unix_of(cl.trans);
    if (cl.kind == cctz::time_zone::civil_lookup::UNIQUE) cand = zp::unix_of(cl.pre);
    if (cand >= t && guard > 0) { *why = "prev_transition chain does not move back at " + show(tr); return false; }
    t = cand;
  }
  std::reverse(bwd.begin(), bwd.end());
  *count = fwd.size();
  if (fwd.size() != bwd.size()) { *why = "forward chain from min() has " + std::to_string(fwd.size()) + " transitions, backward chain from max() has " + std::to_string(bwd.size()); return false; }
  for (size_t i = 0; i < fwd.size(); ++i)
    if (fwd[i].first != bwd[i].first || fwd[i].second != bwd[i].second) { *why = "chains differ at position " + std::to_string(i) + ": " + refcal::str(fwd[i].second) + " vs " + refcal::str(bwd[i].second); return false; }
  return true;
}

static bool check_zone(const zp::Zone& z, zp::Handle& h, bool in_rc, bool full, vf::Case* fc, std::string* why) {
  fc->set("sweep", full ? "full" : "thin");
  if (!h.ok) return true;
  const zm::Model& m = z.model;
  if (m.pre_first_unspecified) EV->cls("zone_legacy_DST_type0_referenced(relations_only_at_first_change)");
  const uint64_t zh = vf::fnv(z.bytes);
  prepare_zone(m);
  // a public handle for the templated overloads: the zone's own if it was opened publicly, and for shipped files one
  // opened by path (the public cache never frees, so synthetic zones beyond the first few stay private)
  g_have_pub = false;
  if (h.pub) { g_pub = h.tz; g_have_pub = true; }
  else if (z.kind == "shipped") g_have_pub = cctz::load_time_zone(z.load_name, &g_pub);
  int64_t cur = 0;
  vf::CurrentScope scope([&]() { vf::Case c; c.set("zone", z.label); c.set("t", cur); return c; });
  const zp::Anchors an = zp::anchors_for(m, full);
  bool special = false;
  for (size_t i = 0; i < m.f.trans.size(); ++i) {
    const zm::LT b = i ? m.lt_of(m.f.trans[i - 1].type) : m.lt_of(0), a = m.lt_of(m.f.trans[i].type);
    if (b == a) { special = true; EV->cls("zone_entry_noop"); }
    else if (b.utoff == a.utoff) { special = true; EV->cls(b.isdst != a.isdst ? "zone_entry_isdst_only_change" : "zone_entry_abbr_only_change"); }
  }
  for (size_t i = 0; i < an.instants.size(); ++i)
    for (int d : {-1, 0, 1}) {
      const i128 tt = (i128)an.instants[i] + d;
      if (!refcal::fits64(tt)) continue;
      cur = (int64_t)tt;
      EV->eval();
      EV->nt(vf::mix(zh, (uint64_t)cur));
      if (!check_query(z, h, cur, why)) { fc->set("t", cur); fc->set("anchor", an.tags[i]); return false; }
    }
  (void)special;
  size_t n = 0;
  if (!check_chains(z, h, why, &n)) { fc->set("chains", "1"); return false; }
  EV->eval(2 * n);
  if (m.f.trans.empty()) {
    cctz::time_zone::civil_transition tr;
    for (int64_t t : {INT64_MIN, (int64_t)0, INT64_MAX, (int64_t)1 << 40}) if (h.next(t, &tr) || h.prev(t, &tr)) { *why = "zone without transitions reported one"; fc->set("t", t); return false; }
  }
  if (in_rc) {
    for (int k = *vf::range<int>(3, 10); k > 0; --k) {
      cur = *vf::range<int>(0, 1) || an.instants.empty() ? *vf::any_i64()
            : refcal::clamp64((i128)an.instants[*vf::index(an.instants.size())] + *vf::range<int64_t>(-400 * 86400, 400 * 86400));
      EV->eval();
      if (!check_query(z, h, cur, why)) { fc->set("t", cur); fc->set("anchor", "generated"); return false; }
    }
  }
  if (EV->want_sample(z.kind)) EV->sample(z.kind, z.kind + " zone (" + zc::zone_class(m) + "): " + std::to_string(n) + " transitions in both chains; " + std::to_string(an.instants.size() * 3) + " anchored queries");
  return true;
}

static bool replay(const vf::Case& c, std::string* why) {
  vf::Evidence ev; EV = &ev;
  zp::Zone z = zp::zone_from_label(c.get("zone"));
  if (!z.model.in_domain()) return true;
  zp::Handle h = zp::open_public(z.load_name);
  if (!h.ok) return true;
  prepare_zone(z.model);
  g_pub = h.tz; g_have_pub = true;
  if (c.has("t") && !check_query(z, h, (int64_t)c.num("t"), why)) return false;
  if (c.has("t") && !c.has("sweep")) return true;
  vf::Case fc;
  return check_zone(z, h, false, c.get("sweep", "full") == "full", &fc, why);
}

static void run(const vf::Args& a, vf::Evidence& ev, vf::Reporter& rep) {
  EV = &ev; zo::ARGS = &a;
  ev.rule = "zones as in C01 (incl. files with no-op entries, a big-bang entry at -2^59, isdst-only and abbreviation-only "
            "changes, no transitions). queries: each table entry T (recorded + every rule year of the table + 400-year images) "
            "at T-1, T, T+1; min(), max(); generated instants. next/prev must equal the model's nearest real change (from/to "
            "from the model and from lookup()), lookup() must differ across it; forward chain from min() equals reversed "
            "backward chain from max(). Non-trivial: all anchored queries (distinct by (zone, t)).";
  zc::Ctx c{&a, &ev, &rep};
  zc::ZoneProp p;
  p.check_zone = check_zone;
  zc::run_all(c, p, 1500, 5000);
}

int main(int argc, char** argv) { return vf::main_dispatch(argc, argv, "C11", run, replay); }
