// C08 core: format() renders exactly what lookup() reports.
#pragma once
#include <fuzzer/FuzzedDataProvider.h>
#include "fmtref.h"

namespace c08 {
using fr::Token;

// strict tokenizer for grammar A; returns false if the string is not a sentence of it
inline bool tokenize(const std::string& s, std::vector<Token>* out) {
  static const char* libc1 = "aAbBcCDFgGhIjklnpPrRtTVxXy";
  size_t i = 0;
  std::string lit;
  auto flush = [&]() { if (!lit.empty()) { out->push_back(Token{Token::LIT, lit}); lit.clear(); } };
  while (i < s.size()) {
    if (s[i] != '%') { lit.push_back(s[i++]); continue; }
    flush();
    if (i + 1 >= s.size()) return false;
    char c = s[i + 1];
    if (strchr("YmdeHMSUWuwzZs%", c)) { out->push_back(Token{Token::CCTZ, s.substr(i, 2)}); i += 2; continue; }
    if (c == ':') {
      size_t j = i + 1; while (j < s.size() && s[j] == ':') ++j;
      if (j < s.size() && s[j] == 'z' && j - (i + 1) <= 3) { out->push_back(Token{Token::CCTZ, s.substr(i, j + 1 - i)}); i = j + 1; continue; }
      return false;
    }
    if (c == 'E') {
      if (i + 2 >= s.size()) return false;
      char d = s[i + 2];
      if (d == 'T' || d == 'z') { out->push_back(Token{Token::CCTZ, s.substr(i, 3)}); i += 3; continue; }
      if (d == '*' && i + 3 < s.size() && strchr("zSf", s[i + 3])) { out->push_back(Token{Token::CCTZ, s.substr(i, 4)}); i += 4; continue; }
      if (d == '4' && i + 3 < s.size() && s[i + 3] == 'Y') { out->push_back(Token{Token::CCTZ, s.substr(i, 4)}); i += 4; continue; }
      if (d >= '0' && d <= '9') {
        size_t j = i + 2; long n = 0;
        while (j < s.size() && s[j] >= '0' && s[j] <= '9' && n <= 1024) n = n * 10 + (s[j++] - '0');
        if (n <= 1024 && j < s.size() && (s[j] == 'S' || s[j] == 'f')) { out->push_back(Token{Token::CCTZ, s.substr(i, j + 1 - i)}); i = j + 1; continue; }
        return false;
      }
      if (strchr("cCxXyY", d)) { out->push_back(Token{Token::LIBC, s.substr(i, 3)}); i += 3; continue; }
      return false;
    }
    if (c == 'O') {
      if (i + 2 < s.size() && strchr("deHImMSuUVwWy", s[i + 2])) { out->push_back(Token{Token::LIBC, s.substr(i, 3)}); i += 3; continue; }
      return false;
    }
    if (strchr(libc1, c)) { out->push_back(Token{Token::LIBC, s.substr(i, 2)}); i += 2; continue; }
    return false;
  }
  flush();
  return true;
}

// returns: 1 ok, 0 violation, 2 unspecified (counted by caller)
inline int oracle(const std::string& fmt, const cctz::time_zone& tz, int64_t t, int64_t fs, std::string* why, bool* exact) {
  const std::string got = cctz::detail::format(fmt, fr::tp(t), cctz::detail::femtoseconds(fs), tz);
  const std::string again = cctz::detail::format(fmt, fr::tp(t), cctz::detail::femtoseconds(fs), tz);
  if (got != again) { *why = "format() is not deterministic: '" + vf::esc(got) + "' vs '" + vf::esc(again) + "'"; return 0; }
  // effective format ends at the first NUL, like strftime
  std::string eff = fmt.substr(0, fmt.find('\0'));
  std::vector<Token> toks;
  *exact = fmt.find('\0') == std::string::npos && tokenize(eff, &toks);
  if (!*exact) {
    // literal text before the first '%' must come out unchanged at the front
    const std::string prefix = fmt.substr(0, std::min(fmt.find('%'), fmt.find('\0')));
    if (fmt.find('\0') == std::string::npos && got.compare(0, prefix.size(), prefix) != 0) { *why = "leading literal text not preserved: format '" + vf::esc(fmt) + "' gave '" + vf::esc(got) + "'"; return 0; }
    return 1;
  }
  const fr::Fields f = fr::fields_of(tz.lookup(fr::tp(t)));
  bool unspec = false;
  const std::string exp = fr::render(toks, f, t, fs, &unspec);
  if (unspec) return 2;
  if (got != exp) {
    *why = "format('" + vf::esc(fmt) + "', t=" + vf::i64_str(t) + ", fs=" + vf::i64_str(fs) + ") = '" + vf::esc(got) + "', expected '" + vf::esc(exp) + "'";
    return 0;
  }
  return 1;
}
// decoding of a libFuzzer input into structured arguments (shared with replay)
struct FuzzArgs { size_t zi; int64_t t; int64_t fs; std::string fmt; };
inline FuzzArgs decode_fuzz(const uint8_t* data, size_t size) {
  FuzzedDataProvider fdp(data, size);
  FuzzArgs a;
  a.zi = fdp.ConsumeIntegralInRange<size_t>(0, fr::zones().size() - 1);
  a.t = fdp.ConsumeIntegral<int64_t>();
  const int mode = fdp.ConsumeIntegralInRange<int>(0, 3);
  if (mode == 1) a.t = INT64_MAX - (int64_t)((uint64_t)a.t % 200000); else if (mode == 2) a.t = INT64_MIN + (int64_t)((uint64_t)a.t % 200000); else if (mode == 3) a.t = a.t % 8000000000LL;
  a.fs = (int64_t)(fdp.ConsumeIntegral<uint64_t>() % 1000000000000000ULL);
  a.fmt = fdp.ConsumeRemainingBytesAsString();
  return a;
}
}  // namespace c08
