// C05: civil-time arithmetic and difference are exact inverses in the aligned
// unit; comparisons are a total order agreeing with difference and working
// across alignments.  Oracle: unit counts in 128-bit (refcal).
#include "civil_util.h"
#include "common.h"
#include "rcutil.h"

using cu::Civil;
using vf::i128;

struct In { int a; Civil A; int64_t n; int b2; Civil X; };  // X/b2: cross-alignment partner

static vf::Case to_case(const In& in) {
  vf::Case c;
  c.set("align", in.a);
  c.set("y", in.A.y).set("m", in.A.m).set("d", in.A.d).set("hh", in.A.hh).set("mm", in.A.mm).set("ss", in.A.ss);
  c.set("n", in.n);
  c.set("align2", in.b2);
  c.set("xy", in.X.y).set("xm", in.X.m).set("xd", in.X.d).set("xhh", in.X.hh).set("xmm", in.X.mm).set("xss", in.X.ss);
  return c;
}
static In from_case(const vf::Case& c) {
  In in;
  in.a = (int)c.num("align");
  in.A = Civil{c.num("y"), (int)c.num("m"), (int)c.num("d"), (int)c.num("hh"), (int)c.num("mm"), (int)c.num("ss")};
  in.n = (int64_t)c.num("n");
  in.b2 = (int)c.num("align2");
  in.X = Civil{c.num("xy"), (int)c.num("xm"), (int)c.num("xd"), (int)c.num("xhh"), (int)c.num("xmm"), (int)c.num("xss")};
  return in;
}

static i128 umin(int a) { return cu::unit_count(cu::trunc_to(Civil{refcal::kI64Min, 1, 1, 0, 0, 0}, a), a); }
static i128 umax(int a) { return cu::unit_count(cu::trunc_to(Civil{refcal::kI64Max, 12, 31, 23, 59, 59}, a), a); }

template <typename T>
static T make(const Civil& c) { return T((int64_t)c.y, c.m, c.d, c.hh, c.mm, c.ss); }

static bool valid(const Civil& c) {
  return refcal::fits64(c.y) && c.m >= 1 && c.m <= 12 && c.d >= 1 && c.d <= refcal::days_in_month(c.y, c.m) &&
         c.hh >= 0 && c.hh < 24 && c.mm >= 0 && c.mm < 60 && c.ss >= 0 && c.ss < 60;
}

#define REQ(cond, msg)                          \
  do {                                          \
    if (!(cond)) { *why = std::string(msg) + " [civil_" + cu::align_name(in.a) + "]"; return false; } \
  } while (0)

static bool check_one(const In& in, std::string* why) {
  if (!valid(in.A) || !valid(in.X) || in.a < 0 || in.a > 5 || in.b2 < 0 || in.b2 > 5) return true;
  const Civil A = cu::trunc_to(in.A, in.a);
  const i128 ua = cu::unit_count(A, in.a);
  const i128 ub = ua + in.n;
  if (ub < umin(in.a) || ub > umax(in.a)) return true;  // result not representable: outside the domain
  const Civil B = cu::from_unit_count(ub, in.a);
  const int64_t n = in.n;
  bool ok = cu::with_align(in.a, [&](auto tag) -> bool {
    using T = decltype(tag);
    const T a = make<T>(A), b = make<T>(B);
    REQ(cu::fields_of(a) == A && cu::fields_of(b) == B, "construction of normalized fields changed them");
    REQ(cu::fields_of(a + n) == B, "a + n: got " + refcal::str(cu::fields_of(a + n)) + " expected " + refcal::str(B));
    REQ(cu::fields_of(n + a) == B, "n + a != a + n");
    REQ(cu::fields_of(b - n) == A, "b - n: got " + refcal::str(cu::fields_of(b - n)) + " expected " + refcal::str(A));
    REQ(b - a == n, "b - a: got " + vf::i64_str(b - a) + " expected " + vf::i64_str(n));
    REQ((a + n) - a == n, "(a + n) - a != n");
    if (n != INT64_MIN) {
      REQ(a - b == -n, "a - b: got " + vf::i64_str(a - b) + " expected " + vf::i64_str(-n));
      REQ(cu::fields_of(b + (a - b)) == A, "b + (a - b) != a");
      REQ(cu::fields_of(a - (-n)) == B, "a - (-n) != a + n");
    }
    { T t = a; t += n; REQ(cu::fields_of(t) == B, "a += n"); }
    { T t = b; t -= n; REQ(cu::fields_of(t) == A, "b -= n"); }
    if (ua + 1 <= umax(in.a)) {
      const Civil A1 = cu::from_unit_count(ua + 1, in.a);
      T t = a; REQ(cu::fields_of(++t) == A1, "++a");
      t = a; T old = t++; REQ(cu::fields_of(old) == A && cu::fields_of(t) == A1, "a++");
      REQ(t - a == 1, "(a+1) - a != 1");
    }
    if (ua - 1 >= umin(in.a)) {
      const Civil A0 = cu::from_unit_count(ua - 1, in.a);
      T t = a; REQ(cu::fields_of(--t) == A0, "--a");
      t = a; T old = t--; REQ(cu::fields_of(old) == A && cu::fields_of(t) == A0, "a--");
      REQ(t - a == -1, "(a-1) - a != -1");
    }
    // order agrees with difference and with the reference
    REQ((a < b) == (n > 0) && (a > b) == (n < 0) && (a == b) == (n == 0) && (a != b) == (n != 0) &&
            (a <= b) == (n >= 0) && (a >= b) == (n <= 0),
        "relational operators disagree with the sign of the difference");
    REQ((a < b) == (A < B), "operator< disagrees with field order");
    // cross-alignment comparison: compares all six fields
    const Civil X = cu::trunc_to(in.X, in.b2);
    bool okx = cu::with_align(in.b2, [&](auto tag2) -> bool {
      using U = decltype(tag2);
      const U x = make<U>(X);
      REQ((a < x) == (A < X) && (x < a) == (X < A) && (a == x) == (A == X) && (a != x) == (A != X) &&
              (a <= x) == !(X < A) && (a >= x) == !(A < X) && (a > x) == (X < A),
          std::string("cross-alignment comparison with civil_") + cu::align_name(in.b2) + " disagrees with field order");
      return true;
    });
    return okx;
  });
  return ok;
}

static bool replay(const vf::Case& c, std::string* why) { return check_one(from_case(c), why); }

static rc::Gen<Civil> civil_gen() {
  return rc::gen::exec([]() {
    Civil c;
    int ys = *vf::range<int>(0, 4);
    switch (ys) {
      case 0: c.y = 1970 + *vf::range<int64_t>(-3000, 3000); break;
      case 1: c.y = *vf::edge_i64(); break;
      case 2: c.y = (*rc::gen::arbitrary<bool>() ? INT64_MAX - *vf::range<int64_t>(0, 800) : INT64_MIN + *vf::range<int64_t>(0, 800)); break;
      case 3: c.y = *vf::range<int64_t>(-1000, 1000) * 400 + *vf::range<int64_t>(-2, 2); break;
      default: c.y = *vf::any_i64(); break;
    }
    c.m = *rc::gen::weightedOneOf<int>({{4, vf::range<int>(1, 12)}, {1, rc::gen::element(1, 2, 3, 12)}});
    int dim = refcal::days_in_month(c.y, c.m);
    c.d = *rc::gen::weightedOneOf<int>({{3, vf::range<int>(1, dim)}, {1, rc::gen::element(1, 28, dim)}});
    if (c.d > dim) c.d = dim;
    c.hh = *rc::gen::weightedOneOf<int>({{3, vf::range<int>(0, 23)}, {1, rc::gen::element(0, 23)}});
    c.mm = *rc::gen::weightedOneOf<int>({{3, vf::range<int>(0, 59)}, {1, rc::gen::element(0, 59)}});
    c.ss = *rc::gen::weightedOneOf<int>({{3, vf::range<int>(0, 59)}, {1, rc::gen::element(0, 59)}});
    return c;
  });
}

static void run(const vf::Args& a, vf::Evidence& ev, vf::Reporter& rep) {
  vf::History::enabled() = true;  // failing cases carry the cases that ran just before them (state between calls)
  ev.rule = "rapidcheck: alignment x civil time A (years: modern, +-2^k, within 800 years of the int64 limits, "
            "multiples of 400, uniform) x count n drawn inside the exactly computed admissible interval "
            "(styles: small, multiples of the next-coarser unit +-1, +-2^k, interval edges incl. INT64_MIN/MAX, "
            "uniform) x a second civil time of another alignment for cross-alignment comparison. "
            "Non-trivial = |n| exceeds one unit of the next-coarser field, or sign(n) != sign(year), or |year| > 2^40; "
            "distinct by (alignment, A, n).";
  long budget = a.budget(80000, 1500000);
  vf::rc_run("C05.arith", a.stream_seed(1), (int)budget, rep, [&]() {
    In in;
    in.a = *vf::range<int>(0, 5);
    in.A = cu::trunc_to(*civil_gen(), in.a);
    in.b2 = *vf::range<int>(0, 5);
    // partner: mostly near A (equal higher fields), sometimes unrelated
    if (*vf::range<int>(0, 3) == 0) in.X = *civil_gen();
    else {
      in.X = in.A;
      int f = *vf::range<int>(0, 6);
      switch (f) {
        case 0: if (in.X.y < INT64_MAX) in.X.y += 1; break;
        case 1: in.X.m = in.X.m % 12 + 1; break;
        case 2: in.X.d = in.X.d % 28 + 1; break;
        case 3: in.X.hh = (in.X.hh + 1) % 24; break;
        case 4: in.X.mm = (in.X.mm + 1) % 60; break;
        case 5: in.X.ss = (in.X.ss + 1) % 60; break;
        default: break;  // identical fields
      }
      if (in.X.d > refcal::days_in_month(in.X.y, in.X.m)) in.X.d = refcal::days_in_month(in.X.y, in.X.m);
    }
    const i128 ua = cu::unit_count(in.A, in.a);
    i128 nlo = umin(in.a) - ua, nhi = umax(in.a) - ua;
    if (nlo < refcal::kI64Min) nlo = refcal::kI64Min;
    if (nhi > refcal::kI64Max) nhi = refcal::kI64Max;
    static const int64_t next_unit[6] = {60, 60, 24, 31, 12, 400};
    int style = *vf::range<int>(0, 6);
    i128 n;
    switch (style) {
      case 6: {
        // whole 400-year cycles plus or minus a little: k * (units per 400 years) + a few higher units + a few units
        static const i128 cycle[6] = {(i128)146097 * 86400, (i128)146097 * 1440, (i128)146097 * 24, 146097, 4800, 400};
        n = (i128)*rc::gen::element<int64_t>(-3, -2, -1, -1, 1, 1, 2, 3) * cycle[in.a] + (i128)*vf::range<int64_t>(-40, 40) * next_unit[in.a] +
            *vf::range<int64_t>(-(next_unit[in.a] - 1), next_unit[in.a] - 1);
        break;
      }
      case 0: n = *vf::range<int64_t>(-70, 70); break;
      case 1: n = (i128)*vf::range<int64_t>(-5000, 5000) * next_unit[in.a] + *vf::range<int64_t>(-1, 1); break;
      case 2: n = *vf::edge_i64(); break;
      case 3: n = nlo + *vf::range<int64_t>(0, 2); break;
      case 4: n = nhi - *vf::range<int64_t>(0, 2); break;
      default: {
        unsigned __int128 span1 = (unsigned __int128)(nhi - nlo) + 1;
        uint64_t r = *rc::gen::resize(100, rc::gen::arbitrary<uint64_t>());
        n = nlo + (i128)((unsigned __int128)r % span1);
      }
    }
    if (n < nlo) n = nlo;
    if (n > nhi) n = nhi;
    in.n = (int64_t)n;
    static const char* sn[] = {"n_small", "n_next_unit_multiple", "n_edge_i64", "n_at_low_edge", "n_at_high_edge", "n_uniform", "n_whole_400y_cycles_plus_a_little"};
    ev.cls(sn[style]);
    ev.cls(std::string("align_") + cu::align_name(in.a));
    if (in.n == INT64_MIN) ev.cls("n_is_INT64_MIN");
    if (in.n == INT64_MAX) ev.cls("n_is_INT64_MAX");
    if (in.A.y == INT64_MIN || in.A.y == INT64_MAX) ev.cls("year_is_int64_extreme");
    bool nontriv = (in.n > next_unit[in.a] || in.n < -next_unit[in.a]) || ((in.n < 0) != (in.A.y < 0) && in.n != 0) ||
                   in.A.y > (1LL << 40) || in.A.y < -(1LL << 40);
    if (nontriv) {
      uint64_t h = vf::fnv(&in.a, sizeof in.a);
      int64_t yy = (int64_t)in.A.y; h = vf::fnv(&yy, 8, h);
      int f[5] = {in.A.m, in.A.d, in.A.hh, in.A.mm, in.A.ss}; h = vf::fnv(f, sizeof f, h);
      h = vf::fnv(&in.n, 8, h);
      ev.nt(h);
    }
    ev.eval();
    if (ev.want_sample(sn[style]))
      ev.sample(sn[style], std::string("civil_") + cu::align_name(in.a) + " " + refcal::str(in.A) + " + " + vf::i64_str(in.n) +
                               " = " + refcal::str(cu::from_unit_count(ua + in.n, in.a)));
    vf::CurrentScope cur([&]() { return to_case(in); });
    std::string why;
    if (!check_one(in, &why)) {
      rep.failing(to_case(in), why);
      RC_FAIL(why);
    }
  });
}

int main(int argc, char** argv) { return vf::main_dispatch(argc, argv, "C05", run, replay); }
