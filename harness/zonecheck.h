// Shared skeleton of the zone-based checks (C01, C02, C03, C06, C10, C11, C14):
// iterates the three zone sources -- shipped files, zic-compiled files, and
// rapidcheck-generated synthetic zones (domain W) -- and hands each zone to the
// property-specific `ZoneProp` callbacks.
#pragma once
#include "rcutil.h"
#include "zonegen.h"
#include "zonepool.h"

namespace zc {
using vf::i128;

struct Ctx {
  const vf::Args* args;
  vf::Evidence* ev;
  vf::Reporter* rep;
};

// Property plug-in: returns false (and fills why/casefields) on a violation in
// this zone.  `sweep` = systematic anchors x deltas; otherwise the plug-in may
// draw extra points from rapidcheck (it is called inside a property body then).
struct ZoneProp {
  // Called once per zone. Must be deterministic given (zone, in_rc, full).
  std::function<bool(const zp::Zone&, zp::Handle&, bool in_rc, bool full, vf::Case* failing, std::string* why)> check_zone;
  bool want_public_api = true;   // use load_time_zone for shipped/zic zones
};

inline std::string zone_class(const zm::Model& m) {
  std::string s = "v" + std::to_string(m.f.version);
  if (!m.f.has_footer || m.f.footer.empty()) s += ":nofooter";
  else if (m.all_year_dst) s += ":allyearDST";
  else if (!m.has_rule) s += ":stdonly";
  else {
    auto k = [](const px::Date& d) { return d.kind == px::Date::M ? (d.week == 5 ? "M5" : "M") : d.kind == px::Date::J ? "J" : "N"; };
    s += std::string(":rule_") + k(m.px.start) + "_" + k(m.px.end);
    if (m.px.start.time < 0 || m.px.end.time < 0) s += ":negtime";
    if (m.px.start.time >= 86400 || m.px.end.time >= 86400) s += ":time>=24h";
    i128 a, b; m.rule_transitions(2001, &a, &b);
    if (b < a) s += ":south";
    if (m.px.dst_off < m.px.std_off) s += ":negDST";
  }
  return s;
}

// Classes of zones covered by a recorded known finding (known_findings.json).
// The class is decided from the *input* (the file), never from cctz's answer.
inline std::vector<std::string> known_classes(const zm::Model& m) {
  std::vector<std::string> out;
  if (m.has_rule && !m.f.trans.empty()) {
    // R11: the 402-year rule table cctz generates after the last recorded transition ends before 1970
    const i128 last = m.f.trans.back().t;
    const i128 y0 = refcal::from_secs(last + m.lt_of(m.f.trans.back().type).utoff).y;
    i128 s, e; m.rule_transitions(y0 + 401, &s, &e);
    if (std::max(s, e) < 0) out.push_back("rule_table_ends_before_epoch");
  }
  if (!m.f.trans.empty()) {
    // R8b: two consecutive table entries whose local times are not increasing (an entry lies within the size of
    // the following fall-back): cctz's civil-order validation rejects the whole file.  zic can produce this.
    std::vector<zm::Change> ch = m.changes(m.f.trans.front().t, (i128)m.f.trans.back().t + (m.has_rule ? (i128)86400 * 800 : 0));
    for (size_t i = 1; i < ch.size(); ++i)
      if (ch[i].t + ch[i].after.utoff <= ch[i - 1].t + ch[i - 1].after.utoff) { out.push_back("civil_order_violation"); break; }
  }
  return out;
}
inline bool known_excluded(Ctx& c, const zm::Model& m) {
  for (const std::string& kc : known_classes(m))
    if (c.args->excluded(kc)) { c.ev->excl(kc); return true; }
  return false;
}

inline void note_zone(Ctx& c, const zp::Zone& z) {
  c.ev->cls("zone_" + z.kind);
  {
    const zm::Model& m = z.model;
    c.ev->cls("zoneform_version_" + std::to_string(m.f.version));
    if (!m.f.has_footer || m.f.footer.empty()) c.ev->cls("zoneform_no_footer");
    else if (m.all_year_dst) c.ev->cls("zoneform_footer_all_year_DST");
    else if (!m.has_rule) c.ev->cls("zoneform_footer_std_only");
    else {
      auto k = [](const px::Date& d) { return d.kind == px::Date::M ? (d.week == 5 ? "Mm.5.d" : "Mm.w.d") : d.kind == px::Date::J ? "Jn" : "n"; };
      c.ev->cls(std::string("zoneform_rule_date_") + k(m.px.start));
      c.ev->cls(std::string("zoneform_rule_date_") + k(m.px.end));
      if (m.px.start.time < 0 || m.px.end.time < 0) c.ev->cls("zoneform_rule_negative_time");
      if (m.px.start.time >= 86400 || m.px.end.time >= 86400) c.ev->cls("zoneform_rule_time_24h_or_more");
      i128 a, b; m.rule_transitions(2001, &a, &b);
      if (b < a) c.ev->cls("zoneform_rule_southern_order");
      if (m.px.dst_off < m.px.std_off) c.ev->cls("zoneform_rule_negative_DST");
      // rule transitions whose local time falls in the neighbouring civil year
      const i128 so = zm::rule_offset_in_year(m.px.start, 2001), eo = zm::rule_offset_in_year(m.px.end, 2001);
      if (so < 0 || eo < 0 || so >= 365 * 86400 || eo >= 365 * 86400) c.ev->cls("zoneform_rule_spills_into_neighbouring_year");
    }
    if (m.f.v1_timecnt > 0 && m.f.version >= 2) c.ev->cls("zoneform_fat");
    if (m.f.isstdcnt) c.ev->cls("zoneform_with_indicator_arrays");
  }
  if (!z.model.f.trans.empty() && z.model.f.trans.front().t <= -(1LL << 59)) c.ev->cls("zone_has_bigbang_entry");
  if (z.model.f.trans.empty()) c.ev->cls("zone_without_transitions");
  bool submin = false;
  for (auto& t : z.model.f.types) if (t.utoff % 60) submin = true;
  if (submin) c.ev->cls("zone_with_subminute_offset");
}

// Run one file-backed zone (shipped / zic).  Returns false on violation.
inline bool run_file_zone(Ctx& c, const ZoneProp& p, const std::string& path, const std::string& kind, bool full) {
  // zic-compiled files live in a scratch directory: carry their bytes so that replay files are self-contained
  zp::Zone z = kind == "zic" ? zp::zone_from_bytes(vf::read_file(path), kind) : zp::zone_from_file(path, kind);
  struct Unreg { std::string n; bool on; ~Unreg() { if (on) zp::unregister(n); } } unreg{z.load_name, kind == "zic"};
  if (!z.model.f.ok) { c.ev->cls("file_unreadable_by_model:" + z.model.f.err); return true; }
  if (!z.model.in_domain()) { c.ev->unspec("zone_outside_domain_" + kind); return true; }
  if (known_excluded(c, z.model)) return true;
  note_zone(c, z);
  zp::Handle h = p.want_public_api ? zp::open_public(z.load_name) : zp::open_private(z.load_name);
  vf::Case fc; std::string why;
  vf::CurrentScope cur([&]() { vf::Case cc; cc.set("zone", z.label); cc.set("note", "died while sweeping this zone"); return cc; });
  if (!p.check_zone(z, h, false, full, &fc, &why)) {
    fc.set("zone", z.label);
    c.rep->failing(fc, why); c.rep->commit();
    return false;
  }
  return true;
}

// All zones: shipped (sharded), zic (sharded), synthetic (rapidcheck budget).
inline void run_all(Ctx& c, const ZoneProp& p, long w_quick, long w_thorough, bool shipped_full_quick = true) {
  const vf::Args& a = *c.args;
  std::vector<std::string> files = zp::shipped_files();
  size_t n = 0; int fails = 0;
  for (size_t i = 0; i < files.size() && fails < 3; ++i) {
    if ((int)(i % a.nshards) != a.shard) continue;
    ++n;
    if (!run_file_zone(c, p, files[i], "shipped", a.thorough() || shipped_full_quick)) ++fails;
  }
  c.ev->extra["shipped_zones_swept"] = std::to_string(n);
  const char* zd = getenv("VERIF_ZIC_DIR");
  size_t nz = 0;
  if (zd && *zd) {
    std::vector<std::string> zf; zp::list_files(zd, &zf);
    for (size_t i = 0; i < zf.size() && fails < 3; ++i) {
      if ((int)(i % a.nshards) != a.shard) continue;
      ++nz;
      if (!run_file_zone(c, p, zf[i], "zic", a.thorough())) ++fails;
    }
  }
  c.ev->extra["zic_zones_swept"] = std::to_string(nz);
  long budget = a.budget(w_quick, w_thorough);
  long public_left = 40;  // the first few synthetic zones go through the public (caching) API
  vf::rc_run("synthetic_zones", a.stream_seed(1), (int)budget, *c.rep, [&]() {
    zg::ZoneSpec spec = *zg::zone_gen();
    std::string bytes = zg::write_tzif(spec);
    zp::Zone z = zp::zone_from_bytes(bytes, "synthetic");
    struct Unreg { std::string n; ~Unreg() { zp::unregister(n); } } unreg{z.load_name};
    vf::CurrentScope cur([&]() { vf::Case cc; cc.set("zone", z.label); cc.set("spec", spec.note); return cc; });
    if (!z.model.f.ok) {  // the writer and the independent reader must agree: harness invariant
      vf::Case cc; cc.set("zone", z.label); cc.set("harness_error", "model cannot read generated file: " + z.model.f.err);
      c.rep->failing(cc, "harness: generated file unreadable by zonemodel");
      RC_FAIL("harness: generated file unreadable by zonemodel: " + z.model.f.err);
    }
    if (!z.model.in_domain()) { c.ev->unspec("generated_zone_outside_domain"); RC_DISCARD("outside W"); }
    if (known_excluded(c, z.model)) RC_DISCARD("known finding class");
    note_zone(c, z);
    zp::Handle h = (public_left-- > 0) ? zp::open_public(z.load_name) : zp::open_private(z.load_name);
    vf::Case fc; std::string why;
    if (!p.check_zone(z, h, true, false, &fc, &why)) {
      fc.set("zone", z.label); fc.set("spec", spec.note);
      c.rep->failing(fc, why);
      RC_FAIL(why);
    }
  });
}

}  // namespace zc
