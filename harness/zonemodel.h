// zonemodel: what a TZif file *means*, written from RFC 9636 (TZif) and POSIX
// (footer rules) on top of refcal's 128-bit calendar.  Independent of cctz:
// no cctz header is included.
#pragma once
#include <algorithm>
#include <cstdint>
#include <string>
#include <vector>
#include "common.h"
#include "posixref.h"
#include "refcal.h"

namespace zm {
using vf::i128;

struct TType {
  int32_t utoff = 0;
  bool isdst = false;
  std::string abbr;
  int abbr_index = 0;
  bool same(const TType& o) const { return utoff == o.utoff && isdst == o.isdst && abbr == o.abbr; }
};
struct Trans { int64_t t; int type; };

struct TzFile {
  bool ok = false;
  std::string err;
  int version = 1;  // 1..4
  std::vector<TType> types;
  std::vector<Trans> trans;
  bool has_footer = false;
  std::string footer;
  size_t leapcnt = 0, isstdcnt = 0, isutcnt = 0, charcnt = 0;
  size_t v1_timecnt = 0;
};

// ---------------------------------------------------------------------------
// Reader (RFC 9636 sec. 3)
namespace detail {
inline uint32_t be32(const unsigned char* p) { return ((uint32_t)p[0] << 24) | ((uint32_t)p[1] << 16) | ((uint32_t)p[2] << 8) | p[3]; }
inline uint64_t be64(const unsigned char* p) { return ((uint64_t)be32(p) << 32) | be32(p + 4); }
struct Hdr { int version; uint32_t isutcnt, isstdcnt, leapcnt, timecnt, typecnt, charcnt; };
inline bool read_hdr(const std::string& b, size_t off, Hdr* h) {
  if (b.size() < off + 44) return false;
  const unsigned char* p = (const unsigned char*)b.data() + off;
  if (memcmp(p, "TZif", 4) != 0) return false;
  h->version = p[4] == 0 ? 1 : (p[4] >= '2' && p[4] <= '9') ? p[4] - '0' : -1;
  if (h->version < 0) return false;
  h->isutcnt = be32(p + 20); h->isstdcnt = be32(p + 24); h->leapcnt = be32(p + 28);
  h->timecnt = be32(p + 32); h->typecnt = be32(p + 36); h->charcnt = be32(p + 40);
  return true;
}
inline size_t block_len(const Hdr& h, size_t tl) {
  return (size_t)h.timecnt * (tl + 1) + (size_t)h.typecnt * 6 + h.charcnt + (size_t)h.leapcnt * (tl + 4) + h.isstdcnt + h.isutcnt;
}
}  // namespace detail

inline TzFile read_tzif(const std::string& b) {
  using namespace detail;
  TzFile f;
  Hdr h1;
  if (!read_hdr(b, 0, &h1)) { f.err = "bad first header"; return f; }
  f.version = h1.version;
  f.v1_timecnt = h1.timecnt;
  size_t off = 44, tl = 4;
  Hdr h = h1;
  if (h1.version >= 2) {
    off += block_len(h1, 4);
    if (!read_hdr(b, off, &h)) { f.err = "bad second header"; return f; }
    off += 44; tl = 8;
  }
  if (b.size() < off + block_len(h, tl)) { f.err = "truncated data block"; return f; }
  if (h.typecnt == 0) { f.err = "no types"; return f; }
  const unsigned char* p = (const unsigned char*)b.data() + off;
  std::vector<int64_t> times(h.timecnt);
  for (uint32_t i = 0; i < h.timecnt; ++i, p += tl)
    times[i] = tl == 4 ? (int64_t)(int32_t)be32(p) : (int64_t)be64(p);
  f.trans.resize(h.timecnt);
  for (uint32_t i = 0; i < h.timecnt; ++i) f.trans[i] = Trans{times[i], *p++};
  f.types.resize(h.typecnt);
  for (uint32_t i = 0; i < h.typecnt; ++i, p += 6) {
    f.types[i].utoff = (int32_t)be32(p);
    f.types[i].isdst = p[4] != 0;
    f.types[i].abbr_index = p[5];
  }
  std::string chars((const char*)p, h.charcnt);
  p += h.charcnt;
  for (auto& t : f.types) {
    if ((size_t)t.abbr_index >= chars.size()) { f.err = "abbr index out of range"; return f; }
    t.abbr = std::string(chars.c_str() + t.abbr_index);  // NUL-terminated within chars (or to its end)
  }
  for (auto& tr : f.trans) if ((size_t)tr.type >= f.types.size()) { f.err = "type index out of range"; return f; }
  for (size_t i = 1; i < f.trans.size(); ++i) if (!(f.trans[i - 1].t < f.trans[i].t)) { f.err = "times not increasing"; return f; }
  f.leapcnt = h.leapcnt; f.isstdcnt = h.isstdcnt; f.isutcnt = h.isutcnt; f.charcnt = h.charcnt;
  off += block_len(h, tl);
  if (h1.version >= 2) {
    if (off >= b.size() || b[off] != '\n') { f.err = "missing footer"; return f; }
    size_t e = b.find('\n', off + 1);
    if (e == std::string::npos) { f.err = "unterminated footer"; return f; }
    f.has_footer = true;
    f.footer = b.substr(off + 1, e - off - 1);
  }
  f.ok = true;
  return f;
}

// ---------------------------------------------------------------------------
// POSIX rule evaluation on refcal
// seconds from 00:00 Jan 1 (local) of year y to the rule's local transition time
inline i128 rule_offset_in_year(const px::Date& d, i128 y) {
  i128 days = 0;
  const bool leap = refcal::is_leap(y);
  switch (d.kind) {
    case px::Date::J: days = d.day - 1 + ((leap && d.day >= 60) ? 1 : 0); break;
    case px::Date::N: days = d.day; break;
    case px::Date::M: {
      const i128 first = refcal::days_from_civil(y, d.month, 1);
      const int wd_first = (refcal::weekday_mon0(first) + 1) % 7;  // 0 = Sunday
      int dom = 1 + ((d.wday - wd_first) % 7 + 7) % 7 + 7 * (d.week - 1);
      const int dim = refcal::days_in_month(y, d.month);
      while (dom > dim) dom -= 7;
      days = refcal::days_from_civil(y, d.month, dom) - refcal::days_from_civil(y, 1, 1);
      break;
    }
  }
  return days * 86400 + d.time;
}

struct LT {  // a local-time type as lookup() reports it
  int32_t utoff = 0; bool isdst = false; std::string abbr;
  bool operator==(const LT& o) const { return utoff == o.utoff && isdst == o.isdst && abbr == o.abbr; }
  bool operator!=(const LT& o) const { return !(*this == o); }
};
struct Change { i128 t; LT before, after; bool recorded; };

struct Model {
  TzFile f;
  bool has_rule = false;        // footer with DST rules that generate transitions
  bool footer_ok = true;        // footer (if any) parsed by posixref
  bool all_year_dst = false;
  px::Posix px;
  bool pre_first_unspecified = false;  // W4 corner: type 0 is DST, referenced, and a standard type exists
  bool footer_inconsistent = false;    // std-only / all-year footer does not equal the last recorded type
  bool rule_without_transitions = false;

  LT lt_of(int type) const { const TType& t = f.types[type]; return LT{t.utoff, t.isdst, t.abbr}; }
  LT lt_std() const { return LT{px.std_off, false, px.std_abbr}; }
  LT lt_dst() const { return LT{px.dst_off, true, px.dst_abbr}; }

  static Model build(const TzFile& file) {
    Model m; m.f = file;
    if (!file.ok) return m;
    if (file.has_footer && !file.footer.empty()) {
      m.footer_ok = px::parse(file.footer, &m.px);
      if (m.footer_ok && m.px.has_dst) {
        // all-year DST as zic encodes it: DST starts at 00:00 on day 0 and "ends" at the same moment a year later
        const px::Date& s = m.px.start; const px::Date& e = m.px.end;
        m.all_year_dst = s.kind == px::Date::N && s.day == 0 && s.time == 0 && e.kind == px::Date::J && e.day == 365 &&
                         (i128)e.time + (m.px.std_off - m.px.dst_off) == 86400;
        m.has_rule = !m.all_year_dst;
      }
      if (m.footer_ok && !file.trans.empty()) {
        const LT last = m.lt_of(file.trans.back().type);
        if (!m.px.has_dst && last != m.lt_std()) m.footer_inconsistent = true;
        if (m.all_year_dst && last != m.lt_dst()) m.footer_inconsistent = true;
      }
      if (m.footer_ok && file.trans.empty()) {
        if (m.has_rule) m.rule_without_transitions = true;
        else if ((m.px.has_dst ? m.lt_dst() : m.lt_std()) != m.lt_of(0)) m.footer_inconsistent = true;
      }
    }
    bool type0_ref = false, has_std = false;
    for (auto& tr : file.trans) if (tr.type == 0) type0_ref = true;
    for (auto& t : file.types) if (!t.isdst) has_std = true;
    m.pre_first_unspecified = file.types[0].isdst && type0_ref && has_std;
    return m;
  }
  bool in_domain() const {
    return f.ok && footer_ok && !footer_inconsistent && !rule_without_transitions && f.leapcnt == 0;
  }

  // UTC instants of the two rule transitions of year y: (dst start, dst end)
  void rule_transitions(i128 y, i128* start, i128* end) const {
    const i128 jan1 = refcal::days_from_civil(y, 1, 1) * 86400;
    *start = jan1 + rule_offset_in_year(px.start, y) - px.std_off;
    *end = jan1 + rule_offset_in_year(px.end, y) - px.dst_off;
  }
  // all rule transitions strictly after `after` and within [lo, hi]
  void rule_changes(i128 lo, i128 hi, std::vector<std::pair<i128, bool>>* out /* (t, to_dst) */) const {
    const i128 last = f.trans.empty() ? -((i128)1 << 100) : (i128)f.trans.back().t;
    if (hi <= last) return;
    if (lo <= last) lo = last + 1;
    i128 y0 = refcal::from_secs(lo).y - 1, y1 = refcal::from_secs(hi).y + 1;
    for (i128 y = y0; y <= y1; ++y) {
      i128 s, e; rule_transitions(y, &s, &e);
      if (s >= lo && s <= hi) out->push_back({s, true});
      if (e >= lo && e <= hi) out->push_back({e, false});
    }
    std::sort(out->begin(), out->end());
  }

  // The local-time type in force at instant t (any 128-bit t).
  LT type_at(i128 t) const {
    if (f.trans.empty()) return lt_of(0);
    if (t < f.trans.front().t) return lt_of(0);
    // latest recorded transition <= t
    size_t lo = 0, hi = f.trans.size();
    while (hi - lo > 1) { size_t mid = (lo + hi) / 2; if ((i128)f.trans[mid].t <= t) lo = mid; else hi = mid; }
    if (lo + 1 < f.trans.size() || !has_rule) return lt_of(f.trans[lo].type);
    // after the last recorded transition: the footer rule
    const i128 last = f.trans.back().t;
    const i128 y = refcal::from_secs(t).y;
    i128 best = last; bool best_dst = false; bool found = false;
    for (i128 yy = y - 1; yy <= y + 1; ++yy) {
      i128 s, e; rule_transitions(yy, &s, &e);
      if (s > last && s <= t && (!found || s >= best)) { best = s; best_dst = true; found = true; }
      if (e > last && e <= t && (!found || e > best)) { best = e; best_dst = false; found = true; }
    }
    if (!found) return lt_of(f.trans.back().type);
    return best_dst ? lt_dst() : lt_std();
  }

  // All table entries (recorded and rule-generated) with instant in [lo, hi], in order.
  std::vector<Change> changes(i128 lo, i128 hi) const {
    std::vector<Change> out;
    for (size_t i = 0; i < f.trans.size(); ++i) {
      const i128 t = f.trans[i].t;
      if (t < lo || t > hi) continue;
      Change c; c.t = t; c.recorded = true;
      c.before = i == 0 ? lt_of(0) : lt_of(f.trans[i - 1].type);
      c.after = lt_of(f.trans[i].type);
      out.push_back(c);
    }
    if (has_rule && !f.trans.empty()) {
      std::vector<std::pair<i128, bool>> rs;
      rule_changes(lo, hi, &rs);
      for (auto& r : rs) {
        Change c; c.t = r.first; c.recorded = false;
        c.before = type_at(r.first - 1);
        c.after = r.second ? lt_dst() : lt_std();
        out.push_back(c);
      }
    }
    return out;
  }
  // distinct UTC offsets that can be in force anywhere
  std::vector<int32_t> offsets() const {
    std::vector<int32_t> v;
    for (auto& t : f.types) v.push_back(t.utoff);
    if (footer_ok && f.has_footer && !f.footer.empty()) { v.push_back(px.std_off); if (px.has_dst) v.push_back(px.dst_off); }
    std::sort(v.begin(), v.end());
    v.erase(std::unique(v.begin(), v.end()), v.end());
    return v;
  }

  struct CivilAnswer {
    int kind = 0;           // 0 UNIQUE, 1 SKIPPED, 2 REPEATED
    i128 pre = 0, trans = 0, post = 0;  // unclamped
    int solutions = 0;      // brute-force count of instants displaying cs
    bool consistent = true; // responsible-change analysis agrees with brute force
    bool crowded = false;   // another table entry (possibly a no-op) lies within the size of the responsible change
  };
  // civil second (given as seconds of the civil time read as if UTC) -> instants
  CivilAnswer civil_to_instants(i128 csecs) const {
    CivilAnswer a;
    std::vector<i128> sol;
    for (int32_t o : offsets()) {
      const i128 t = csecs - o;
      if (type_at(t).utoff == o) sol.push_back(t);
    }
    std::sort(sol.begin(), sol.end());
    a.solutions = (int)sol.size();
    // responsible change: a table entry T with offsets (o1 -> o2) such that cs lies in the gap or overlap
    std::vector<Change> ch = changes(csecs - 2 * 86400 - 2, csecs + 2 * 86400 + 2);
    int hits = 0;
    for (auto& c : ch) {
      const i128 o1 = c.before.utoff, o2 = c.after.utoff;
      if (o2 > o1 && c.t + o1 <= csecs && csecs < c.t + o2) { a.kind = 1; a.trans = c.t; a.pre = csecs - o1; a.post = csecs - o2; ++hits; }
      if (o2 < o1 && c.t + o2 <= csecs && csecs < c.t + o1) { a.kind = 2; a.trans = c.t; a.pre = csecs - o1; a.post = csecs - o2; ++hits; }
    }
    if (hits == 1) {
      for (auto& c : ch) {
        i128 size = c.after.utoff - c.before.utoff; if (size < 0) size = -size;
        if (c.t != a.trans) continue;
        for (auto& e : ch) if (e.t != c.t && e.t >= c.t - size && e.t <= c.t + size) a.crowded = true;
      }
    }
    if (hits == 0) {
      a.kind = 0;
      if (sol.size() == 1) a.pre = a.trans = a.post = sol[0];
      else a.consistent = false;
    } else if (hits == 1) {
      if (a.kind == 1 && sol.size() != 0) a.consistent = false;
      if (a.kind == 2 && !(sol.size() == 2 && sol[0] == a.pre && sol[1] == a.post)) a.consistent = false;
    } else {
      a.consistent = false;
    }
    return a;
  }
};

}  // namespace zm
