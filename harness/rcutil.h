// rapidcheck helpers: explicit seeds/budgets (derived from VERIF_SEED), size-
// independent integer generators, and failure capture for replay files.
#pragma once
#include <rapidcheck.h>
#include <iostream>
#include <limits>
#include "common.h"

namespace vf {

// rapidcheck's inRange scales with the size parameter and collapses at small
// sizes; always take ranges at a fixed nominal size.
template <typename T>
rc::Gen<T> range(T lo, T hi_inclusive) {
  // inRange is [lo, hi); guard hi == max
  if (hi_inclusive == std::numeric_limits<T>::max()) {
    if (lo == std::numeric_limits<T>::min()) return rc::gen::resize(100, rc::gen::arbitrary<T>());
    return rc::gen::map(rc::gen::resize(100, rc::gen::inRange<T>(lo - 1, hi_inclusive)),
                        [](T v) { return (T)(v + 1); });
  }
  return rc::gen::resize(100, rc::gen::inRange<T>(lo, (T)(hi_inclusive + 1)));
}
inline rc::Gen<size_t> index(size_t n) { return range<size_t>(0, n ? n - 1 : 0); }

inline rc::Gen<int64_t> any_i64() {
  // uniform over bit patterns (rapidcheck's arbitrary<int64_t> is size-scaled)
  return rc::gen::map(rc::gen::resize(100, rc::gen::arbitrary<uint64_t>()),
                      [](uint64_t v) { return (int64_t)v; });
}

// "interesting" int64: extremes, powers of two +-1, small, uniform
inline rc::Gen<int64_t> edge_i64() {
  return rc::gen::oneOf(
      rc::gen::element<int64_t>(0, 1, -1, 2, -2, INT64_MAX, INT64_MIN, INT64_MAX - 1, INT64_MIN + 1),
      rc::gen::map(rc::gen::tuple(range<int>(0, 62), range<int>(-2, 2), rc::gen::arbitrary<bool>()),
                   [](const std::tuple<int, int, bool>& t) {
                     int64_t v = (int64_t)1 << std::get<0>(t);
                     v += std::get<1>(t);
                     return std::get<2>(t) ? -v : v;
                   }),
      range<int64_t>(-100000, 100000),
      any_i64());
}

struct RcOutcome { bool ok; int successes; std::string message; };

// Runs a rapidcheck property with explicit parameters.  The property body must
// call reporter.failing(case, why) before it fails (RC_FAIL / RC_ASSERT), so
// that the last failing (i.e. most shrunk) case is what gets committed.
template <typename Testable>
RcOutcome rc_run(const std::string& name, uint64_t seed, int max_success, Reporter& rep,
                 Testable&& testable, int max_size = 100, bool disable_shrinking = false) {
  rc::detail::TestParams params;
  params.seed = seed;
  params.maxSuccess = max_success;
  params.maxSize = max_size;
  params.maxDiscardRatio = 20;
  params.disableShrinking = disable_shrinking;
  rc::detail::TestMetadata md;
  md.id = name;
  md.description = name;
  rep.latest_text.clear();
  auto result = rc::detail::checkTestable(std::forward<Testable>(testable), md, params);
  RcOutcome out{true, 0, ""};
  rc::detail::SuccessResult sr;
  rc::detail::FailureResult fr;
  rc::detail::GaveUpResult gr;
  rc::detail::Error er;
  if (result.match(sr)) {
    out.successes = sr.numSuccess;
  } else if (result.match(fr)) {
    out.ok = false; out.successes = fr.numSuccess; out.message = fr.description;
    std::cerr << "[" << name << "] falsified after " << fr.numSuccess << " cases: " << fr.description << "\n";
    if (rep.latest_text.empty()) {
      // failure without a captured case (exception inside generator etc.)
      Case c; c.set("note", "rapidcheck failure without captured case: " + fr.description);
      rep.failing(c, fr.description);
    }
    rep.commit();
  } else if (result.match(gr)) {
    out.successes = gr.numSuccess;
    out.message = "gave up: " + gr.description;
    std::cerr << "[" << name << "] GAVE UP after " << gr.numSuccess << ": " << gr.description << "\n";
    if (rep.ev) rep.ev->cls("rc_gave_up:" + name);
  } else if (result.match(er)) {
    out.ok = false; out.message = er.description;
    std::cerr << "[" << name << "] ERROR " << er.description << "\n";
    Case c; c.set("note", "rapidcheck error: " + er.description);
    rep.failing(c, er.description);
    rep.commit();
  }
  return out;
}

}  // namespace vf
