// Self-validation of the oracles (run by setup.sh, and on demand):
//  1. refcal vs glibc timegm/gmtime_r on the range glibc supports + inverse laws;
//  2. zonemodel (TZif reader + POSIX rule evaluator) vs glibc localtime_r with
//     TZ=":<absolute path>" for every shipped zone file and every zic-compiled
//     zone in the directory given as argv[1] (optional), at each recorded
//     transition +-1 s and a grid 1800-2500.
// A disagreement here is a harness bug (or a glibc/tzcode difference that must
// be understood): setup fails.  It can never surface as a cctz VIOLATION.
// Links no cctz code.
#include <dirent.h>
#include <sys/stat.h>
#include <time.h>
#include "zonemodel.h"

static void list_files(const std::string& dir, std::vector<std::string>* out) {
  DIR* d = opendir(dir.c_str());
  if (!d) return;
  std::vector<std::string> names;
  while (dirent* e = readdir(d)) { std::string n = e->d_name; if (n != "." && n != "..") names.push_back(n); }
  closedir(d);
  std::sort(names.begin(), names.end());
  for (auto& n : names) {
    std::string p = dir + "/" + n;
    struct stat st;
    if (stat(p.c_str(), &st) != 0) continue;
    if (S_ISDIR(st.st_mode)) list_files(p, out);
    else if (S_ISREG(st.st_mode)) { std::string b = vf::read_file(p); if (b.size() >= 4 && b.compare(0, 4, "TZif") == 0) out->push_back(p); }
  }
}

int main(int argc, char** argv) {
  long checked = 0, bad = 0;
  // ---- 1. refcal
  for (int64_t t = -62135596800LL * 3; t <= 253402300799LL * 3; t += 86400LL * 17 + 3661) {
    time_t tt = (time_t)t; struct tm tm;
    if (!gmtime_r(&tt, &tm)) continue;
    refcal::Civil c = refcal::from_secs(t);
    ++checked;
    if (c.y != (vf::i128)tm.tm_year + 1900 || c.m != tm.tm_mon + 1 || c.d != tm.tm_mday || c.hh != tm.tm_hour || c.mm != tm.tm_min || c.ss != tm.tm_sec ||
        (refcal::weekday_mon0(refcal::days_from_civil(c.y, c.m, c.d)) + 1) % 7 != tm.tm_wday || refcal::yearday(c.y, c.m, c.d) - 1 != tm.tm_yday ||
        refcal::to_secs(c) != t || (int64_t)timegm(&tm) != t) {
      if (bad++ < 5) fprintf(stderr, "refcal disagrees with glibc at t=%lld\n", (long long)t);
    }
  }
  for (vf::i128 t : {(vf::i128)INT64_MAX, (vf::i128)INT64_MIN, (vf::i128)INT64_MAX * 1000, (vf::i128)INT64_MIN * 1000}) {
    ++checked;
    if (refcal::to_secs(refcal::from_secs(t)) != t) { ++bad; fprintf(stderr, "refcal inverse law fails\n"); }
  }
  // ---- 2. zonemodel: dump (zone, instant) -> (utoff, isdst, abbr) for an independent implementation to check.
  // glibc's localtime_r turned out to be unsuitable as a reference (2.36 disagrees with tzcode semantics for
  // slim files before their first explicit 64-bit-era transitions, for all-year negative DST and for a DST type 0;
  // Python's zoneinfo agrees with the model on all of those), so tools/validate_model.py compares this dump with
  // Python's zoneinfo (PEP 615), an implementation that shares no code with cctz or with the model.
  std::vector<std::string> files;
  const char* tzdir = getenv("VERIF_TZDATA");
  list_files(tzdir ? tzdir : "/repo/testdata/zoneinfo", &files);
  size_t shipped = files.size();
  if (argc > 1) list_files(argv[1], &files);
  FILE* dump = argc > 2 ? fopen(argv[2], "w") : nullptr;
  long zones = 0, skipped = 0;
  for (size_t fi = 0; fi < files.size(); ++fi) {
    const std::string& path = files[fi];
    zm::Model m = zm::Model::build(zm::read_tzif(vf::read_file(path)));
    if (!m.in_domain()) { ++skipped; continue; }
    ++zones;
    if (!dump) continue;
    fprintf(dump, "Z %s\n", path.c_str());
    setenv("TZ", (":" + path).c_str(), 1);
    tzset();
    std::vector<int64_t> ts;
    for (auto& tr : m.f.trans) if (tr.t > -(1LL << 58)) { ts.push_back(tr.t - 1); ts.push_back(tr.t); ts.push_back(tr.t + 1); }
    for (int64_t t = -5364662400LL; t <= 16725225600LL; t += 86400LL * 211 + 7200) ts.push_back(t);  // 1800 .. 2500
    if (m.has_rule && !m.f.trans.empty()) {
      // rule transitions +-1 in a spread of years after the last recorded one
      const vf::i128 y0 = refcal::from_secs(m.f.trans.back().t).y;
      for (int k : {0, 1, 2, 3, 28, 100, 399, 400, 401, 402, 403, 800, 2000}) {
        vf::i128 s, e; m.rule_transitions(y0 + k, &s, &e);
        for (vf::i128 x : {s - 1, s, e - 1, e}) if (x > -62000000000LL && x < 250000000000LL) ts.push_back((int64_t)x);
      }
    }
    for (int64_t t : ts) {
      // before the first transition of a file whose type 0 is a DST type both references keep tzcode's legacy rule
      // (first standard-time type); RFC 9636 says type 0 (so does cctz when type 0 is unreferenced): not comparable
      if (m.f.types[0].isdst && !m.f.trans.empty() && t < m.f.trans.front().t) continue;
      const zm::LT lt = m.type_at(t);
      time_t tt = (time_t)t; struct tm tm; long goff = 0; const char* gab = "?";
      if (localtime_r(&tt, &tm)) { goff = tm.tm_gmtoff; gab = tm.tm_zone ? tm.tm_zone : "?"; }
      fprintf(dump, "%lld %d %d %s\t%ld %s\n", (long long)t, lt.utoff, (int)lt.isdst, lt.abbr.c_str(), goff, gab);
      ++checked;
    }
  }
  if (dump) fclose(dump);
  printf("modelcheck: %ld refcal comparisons + dumped points, %ld zones (%zu shipped files, %zu extra), %ld outside the model's domain, %ld refcal disagreements\n",
         checked, zones, shipped, files.size() - shipped, skipped, bad);
  return bad ? 1 : 0;
}
