// C10: conversions are total and saturate at the ends of the range.
// All four operations on extreme instants and civil seconds in every zone
// (shipped, zic, synthetic W, fixed offsets up to +-24h) under ASan/UBSan;
// values compared with the model (which clamps in 128-bit).
#include "zoneoracle.h"

using vf::i128;
static vf::Evidence*& EV = zo::EV;

static std::vector<int64_t> extreme_instants(const zm::Model& m) {
  std::vector<int64_t> v;
  auto add = [&](i128 t) { if (refcal::fits64(t)) v.push_back((int64_t)t); };
  for (int64_t k = 0; k <= 2 * 86400; k += 3599) { add((i128)INT64_MIN + k); add((i128)INT64_MAX - k); }
  for (int64_t k : {0, 1, 2, 59, 60, 3600, 86399, 86400, 86401, 172799, 172800}) { add((i128)INT64_MIN + k); add((i128)INT64_MAX - k); }
  for (int k = -2; k <= 2; ++k) {
    add(((i128)1 << 59) + k); add(-((i128)1 << 59) + k); add(((i128)1 << 31) + k); add(-((i128)1 << 31) + k);
    add(((i128)1 << 62) + k); add(-((i128)1 << 62) + k); add(k);
  }
  if (!m.f.trans.empty()) {
    // E + k*400y +- d for the last recorded entry and (if any) the table's rule entries: the shift count is
    // multiplied by the length of 400 years, so instants congruent to the table matter
    const i128 C = zp::kSecs400y;
    std::vector<i128> bases = {(i128)m.f.trans.back().t, (i128)m.f.trans.front().t};
    if (m.has_rule) {
      const i128 y0 = refcal::from_secs((i128)m.f.trans.back().t).y;
      for (int dy : {0, 1, 400, 401, 402}) { i128 s, e; m.rule_transitions(y0 + dy, &s, &e); bases.push_back(s); bases.push_back(e); }
    }
    for (i128 E : bases) {
      const i128 kmax = (refcal::kI64Max - E) / C;
      for (i128 k : {kmax, kmax - 1, kmax / 2}) for (int d : {-1, 0, 1}) add(E + k * C + d);
      const i128 kmin = (E - refcal::kI64Min) / C;
      for (int d : {-1, 0, 1}) add(E - kmin * C + d);
    }
  }
  std::sort(v.begin(), v.end()); v.erase(std::unique(v.begin(), v.end()), v.end());
  return v;
}

static bool check_zone(const zp::Zone& z, zp::Handle& h, bool in_rc, bool full, vf::Case* fc, std::string* why) {
  (void)full;
  fc->set("sweep", "full");
  if (!h.ok) return true;
  const zm::Model& m = z.model;
  const uint64_t zh = vf::fnv(z.bytes);
  i128 cur = 0; const char* op = "lookup(t)";
  vf::CurrentScope scope([&]() { vf::Case c; c.set("zone", z.label); c.set("point", cur); c.set("op", op); return c; });
  std::vector<int64_t> ts = extreme_instants(m);
  if (in_rc) for (int k = *vf::range<int>(2, 8); k > 0; --k) {
    int64_t d = *vf::range<int64_t>(0, 2 * 86400);
    ts.push_back(*rc::gen::arbitrary<bool>() ? INT64_MAX - d : INT64_MIN + d);
  }
  cctz::time_zone::civil_transition tr;
  for (int64_t t : ts) {
    cur = t;
    op = "lookup(t)"; EV->eval();
    if (!zo::check_instant(z, h, t, why)) { fc->set("t", t); return false; }
    op = "next_transition"; (void)h.next(t, &tr); EV->eval();
    op = "prev_transition"; (void)h.prev(t, &tr); EV->eval();
    op = "lookup(lookup(t).cs)";
    const auto cs = h.lookup(t).cs;
    const i128 csecs = refcal::to_secs(zp::civ(cs));
    cur = csecs; EV->eval();
    for (int d : {-2, -1, 0, 1, 2}) if (!zo::check_civil(z, h, csecs + d, why)) { fc->set("csecs", csecs + d); return false; }
    const bool edge = t <= INT64_MIN + 2 * 86400 || t >= INT64_MAX - 2 * 86400;
    if (edge || t == (1LL << 59) || t == -(1LL << 59)) EV->nt(vf::mix(zh, (uint64_t)t));
    if (edge) EV->cls("instant_within_2_days_of_a_range_end"); else EV->cls("instant_at_sentinel_or_400y_multiple");
  }
  // civil ends of the range and the last/first representable civil second of this zone
  const i128 cmin = refcal::to_secs(refcal::Civil{refcal::kI64Min, 1, 1, 0, 0, 0});
  const i128 cmax = refcal::to_secs(refcal::Civil{refcal::kI64Max, 12, 31, 23, 59, 59});
  const i128 cs_at_max = refcal::to_secs(zp::civ(h.lookup(INT64_MAX).cs)), cs_at_min = refcal::to_secs(zp::civ(h.lookup(INT64_MIN).cs));
  std::vector<i128> cps;
  for (i128 k : {(i128)0, (i128)1, (i128)2, (i128)60, (i128)3600, (i128)86400, (i128)172800, (i128)86400 * 400}) {
    cps.push_back(cmin + k); cps.push_back(cmax - k);
    cps.push_back(cs_at_max + k); cps.push_back(cs_at_max - k); cps.push_back(cs_at_min + k); cps.push_back(cs_at_min - k);
  }
  for (int32_t o : m.offsets()) { cps.push_back(cs_at_max + o); cps.push_back(cs_at_max - o); cps.push_back(cs_at_min + o); cps.push_back(cs_at_min - o); }
  op = "lookup(cs)";
  for (i128 c : cps) {
    cur = c; EV->eval();
    if (!zo::check_civil(z, h, c, why)) { fc->set("csecs", c); return false; }
    const refcal::Civil cc = refcal::from_secs(c);
    if (zp::cs_fits(cc)) { (void)h.convert(zp::cs_of(cc)); EV->nt(vf::mix(zh ^ 0xabc, (uint64_t)(c ^ (c >> 64)))); EV->cls("civil_at_range_end"); }
  }
  // the last / first representable civil second converts exactly (C03-style relation, no model)
  for (int64_t t : {INT64_MAX, INT64_MAX - 1, INT64_MIN, INT64_MIN + 1}) {
    const auto cl = h.lookup(h.lookup(t).cs);
    const bool ok = (cl.kind == cctz::time_zone::civil_lookup::UNIQUE && zp::unix_of(cl.pre) == t) ||
                    (cl.kind == cctz::time_zone::civil_lookup::REPEATED && (zp::unix_of(cl.pre) == t || zp::unix_of(cl.post) == t));
    EV->eval();
    if (!ok) {
      *why = "the civil second displayed at t=" + vf::i64_str(t) + " does not convert back exactly: pre=" + vf::i64_str(zp::unix_of(cl.pre)) +
             " post=" + vf::i64_str(zp::unix_of(cl.post));
      fc->set("t", t); return false;
    }
  }
  if (EV->want_sample(z.kind)) EV->sample(z.kind, z.kind + " zone (" + zc::zone_class(m) + "): " + std::to_string(ts.size()) + " extreme instants x 4 operations, " + std::to_string(cps.size()) + " extreme civil seconds; lookup(max).cs=" + refcal::str(refcal::from_secs(cs_at_max)));
  return true;
}

// fixed-offset zones: direct rule, no TZif model needed
static bool check_fixed(int32_t off, std::string* why) {
  const cctz::time_zone tz = cctz::fixed_time_zone(cctz::seconds(off));
  std::vector<int64_t> ts;
  for (int64_t k = 0; k <= 2 * 86400; k += 1801) { ts.push_back(INT64_MIN + k); ts.push_back(INT64_MAX - k); }
  for (int k = -1; k <= 1; ++k) { ts.push_back((1LL << 59) + k); ts.push_back(-(1LL << 59) + k); ts.push_back((1LL << 31) + k); ts.push_back(k); }
  cctz::time_zone::civil_transition tr;
  for (int64_t t : ts) {
    EV->eval();
    const auto al = tz.lookup(zp::tp(t));
    if (zp::civ(al.cs) != refcal::from_secs((i128)t + off) || al.offset != off) { *why = "fixed zone " + std::to_string(off) + ": lookup(" + vf::i64_str(t) + ") wrong"; return false; }
    (void)tz.next_transition(zp::tp(t), &tr); (void)tz.prev_transition(zp::tp(t), &tr);
    EV->nt(vf::mix((uint64_t)off * 7919, (uint64_t)t));
  }
  const i128 cmin = refcal::to_secs(refcal::Civil{refcal::kI64Min, 1, 1, 0, 0, 0});
  const i128 cmax = refcal::to_secs(refcal::Civil{refcal::kI64Max, 12, 31, 23, 59, 59});
  std::vector<i128> cps;
  for (i128 k = 0; k <= 3 * 86400; k += 3607) {
    cps.push_back(cmin + k); cps.push_back(cmax - k);
    cps.push_back((i128)INT64_MAX + off + k); cps.push_back((i128)INT64_MAX + off - k);
    cps.push_back((i128)INT64_MIN + off + k); cps.push_back((i128)INT64_MIN + off - k);
  }
  for (i128 c : cps) {
    if (c < cmin || c > cmax) continue;
    EV->eval();
    const auto cl = tz.lookup(zp::cs_of(refcal::from_secs(c)));
    const int64_t exp = refcal::clamp64(c - off);
    if (cl.kind != cctz::time_zone::civil_lookup::UNIQUE || zp::unix_of(cl.pre) != exp || zp::unix_of(cl.trans) != exp || zp::unix_of(cl.post) != exp ||
        zp::unix_of(cctz::convert(zp::cs_of(refcal::from_secs(c)), tz)) != exp) {
      *why = "fixed zone " + std::to_string(off) + ": civil " + refcal::str(refcal::from_secs(c)) + " converts to " + vf::i64_str(zp::unix_of(cl.pre)) + ", expected " + vf::i64_str(exp);
      return false;
    }
    EV->nt(vf::mix((uint64_t)off * 104729, (uint64_t)(c ^ (c >> 64))));
  }
  EV->cls("fixed_offset_zone");
  return true;
}

static bool replay(const vf::Case& c, std::string* why) {
  vf::Evidence ev; EV = &ev;
  if (c.has("fixed_offset")) return check_fixed((int32_t)c.num("fixed_offset"), why);
  zp::Zone z = zp::zone_from_label(c.get("zone"));
  if (!z.model.in_domain()) return true;
  zp::Handle h = zp::open_public(z.load_name);
  if (!h.ok) return true;
  vf::Case fc;
  return check_zone(z, h, false, true, &fc, why);
}

static void run(const vf::Args& a, vf::Evidence& ev, vf::Reporter& rep) {
  EV = &ev; zo::ARGS = &a;
  ev.rule = "zones as in C01 plus fixed offsets {0, +-1 s, +-30 s, +-3600, +-(24h-1s), +-24h}. instants: outermost 2 days of both "
            "ranges (stride 3599 s + edges), +-2^59+-k, +-2^31+-k, +-2^62+-k, and E + k*400y +- 1 for table entries E with the "
            "largest k that fits; all of lookup, next_transition, prev_transition, and lookup(cs) of the displayed second "
            "+-2 s. civil: civil_second::min()+k, max()-k, lookup(max()).cs +- k, lookup(min()).cs +- k, +- each offset. "
            "Oracle: no sanitizer report/assert; values equal the 128-bit model clamped to int64; last/first representable "
            "civil second converts back exactly. Non-trivial = within 2 days of a range end or at a sentinel; distinct by (zone, point).";
  if (a.shard == 0) {
    for (int32_t off : {0, 1, -1, 30, -30, 3600, -3600, 86399, -86399, 86400, -86400, 43200, -43200}) {
      std::string why;
      vf::CurrentScope cur([&]() { vf::Case c; c.set("fixed_offset", off); return c; });
      if (!check_fixed(off, &why)) { vf::Case c; c.set("fixed_offset", off); rep.failing(c, why); rep.commit(); }
    }
  }
  zc::Ctx c{&a, &ev, &rep};
  zc::ZoneProp p;
  p.check_zone = check_zone;
  zc::run_all(c, p, 1500, 6000);
}

int main(int argc, char** argv) { return vf::main_dispatch(argc, argv, "C10", run, replay); }
