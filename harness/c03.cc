// C03: instant -> civil -> instant round trip (and the converse for civil
// seconds with unsaturated answers).  Relation oracle; the model is consulted
// only to recognise probes of a recorded known-finding class.
#include "zoneoracle.h"

using vf::i128;
static vf::Evidence*& EV = zo::EV;
static const vf::Args*& ARGS = zo::ARGS;
static const int64_t kDay = 86400;

static const char* kn(cctz::time_zone::civil_lookup::civil_kind k) {
  return k == cctz::time_zone::civil_lookup::UNIQUE ? "UNIQUE" : k == cctz::time_zone::civil_lookup::SKIPPED ? "SKIPPED" : "REPEATED";
}
static bool crowded_excluded(const zp::Zone& z, const cctz::civil_second& cs) {
  if (!(ARGS && ARGS->excluded("crowded_change"))) return false;
  const zm::Model::CivilAnswer a = z.model.civil_to_instants(refcal::to_secs(zp::civ(cs)));
  if (a.crowded && a.kind != 0) { EV->excl("crowded_change"); return true; }
  return false;
}

// forward: t -> cs -> {pre,post}
static bool check_forward(const zp::Zone& z, const zp::Handle& h, int64_t t, std::string* why) {
  if (t < INT64_MIN + kDay || t > INT64_MAX - kDay) return true;  // outside the property's range
  const auto al = h.lookup(t);
  const auto cl = h.lookup(al.cs);
  const int64_t pre = zp::unix_of(cl.pre), post = zp::unix_of(cl.post);
  bool ok = (cl.kind == cctz::time_zone::civil_lookup::UNIQUE && pre == t) ||
            (cl.kind == cctz::time_zone::civil_lookup::REPEATED && (pre == t || post == t));
  if (ok) return true;
  if (crowded_excluded(z, al.cs)) return true;
  *why = "t=" + vf::i64_str(t) + " displays " + refcal::str(zp::civ(al.cs)) + " but lookup of that civil second is " + kn(cl.kind) +
         " pre=" + vf::i64_str(pre) + " trans=" + vf::i64_str(zp::unix_of(cl.trans)) + " post=" + vf::i64_str(post);
  return false;
}
// converse: cs -> instants -> cs
static bool check_converse(const zp::Zone& z, const zp::Handle& h, i128 csecs, std::string* why, std::string* cls) {
  const refcal::Civil c = refcal::from_secs(csecs);
  if (!zp::cs_fits(c)) return true;
  const cctz::civil_second cs = zp::cs_of(c);
  const auto cl = h.lookup(cs);
  const int64_t pre = zp::unix_of(cl.pre), post = zp::unix_of(cl.post), tr = zp::unix_of(cl.trans);
  *cls = kn(cl.kind);
  auto sat = [](int64_t v) { return v == INT64_MIN || v == INT64_MAX; };
  if (cl.kind == cctz::time_zone::civil_lookup::SKIPPED) return true;
  if (sat(pre) || sat(post) || sat(tr)) { *cls = "saturated"; return true; }
  for (int64_t t : {pre, post}) {
    if (h.lookup(t).cs != cs) {
      if (crowded_excluded(z, cs)) return true;
      *why = std::string("civil ") + refcal::str(c) + " answered " + kn(cl.kind) + " with instant " + vf::i64_str(t) +
             " which displays " + refcal::str(zp::civ(h.lookup(t).cs)) + " instead";
      return false;
    }
  }
  return true;
}

static bool check_zone(const zp::Zone& z, zp::Handle& h, bool in_rc, bool full, vf::Case* fc, std::string* why) {
  fc->set("sweep", full ? "full" : "thin");
  if (!h.ok) return true;
  const zm::Model& m = z.model;
  const zp::Anchors an = zp::anchors_for(m, full);
  const std::vector<int64_t> deltas = zp::deltas_for(m);
  const uint64_t zh = vf::fnv(z.bytes);
  i128 cur = 0; bool cur_civil = false;
  vf::CurrentScope scope([&]() { vf::Case c; c.set("zone", z.label); c.set(cur_civil ? "csecs" : "t", cur); return c; });
  for (size_t i = 0; i < an.instants.size(); ++i)
    for (int64_t d : deltas) {
      const i128 tt = (i128)an.instants[i] + d;
      if (!refcal::fits64(tt)) continue;
      cur = tt; cur_civil = false;
      EV->eval();
      if (d >= -kDay && d <= kDay) EV->nt(vf::mix(zh, (uint64_t)(int64_t)tt));
      if (!check_forward(z, h, (int64_t)tt, why)) { fc->set("t", tt); fc->set("anchor", an.tags[i]); return false; }
      if (d == 0 && EV->want_sample(an.tags[i]))
        EV->sample(an.tags[i], z.kind + " zone (" + zc::zone_class(m) + ") t=" + vf::i128_str(tt) + " -> " + refcal::str(zp::civ(h.lookup((int64_t)tt).cs)) + " -> back");
    }
  for (const zo::CivilPoint& pt : zo::civil_points(m, an)) {
    cur = pt.csecs; cur_civil = true;
    EV->eval();
    std::string cls;
    if (!check_converse(z, h, pt.csecs, why, &cls)) { fc->set("csecs", pt.csecs); fc->set("civil", refcal::str(refcal::from_secs(pt.csecs))); return false; }
    EV->cls("converse_" + cls);
    if (pt.nontrivial) EV->nt(vf::mix(zh ^ 0x5555, (uint64_t)(pt.csecs ^ (pt.csecs >> 64))));
  }
  if (in_rc) {
    int n = *vf::range<int>(4, 12);
    for (int k = 0; k < n; ++k) {
      int64_t t = *vf::range<int>(0, 2) == 0 || an.instants.empty() ? *vf::any_i64()
                  : refcal::clamp64((i128)an.instants[*vf::index(an.instants.size())] + *vf::range<int64_t>(-100000, 100000));
      cur = t; cur_civil = false;
      EV->eval();
      if (!check_forward(z, h, t, why)) { fc->set("t", t); fc->set("anchor", "generated"); return false; }
    }
  }
  return true;
}

static bool replay(const vf::Case& c, std::string* why) {
  vf::Evidence ev; EV = &ev;
  zp::Zone z = zp::zone_from_label(c.get("zone"));
  if (!z.model.in_domain()) return true;
  zp::Handle h = zp::open_public(z.load_name);
  if (!h.ok) return true;
  std::string cls;
  if (c.has("t") && !check_forward(z, h, (int64_t)c.num("t"), why)) return false;
  if (c.has("csecs") && !check_converse(z, h, c.num("csecs"), why, &cls)) return false;
  if ((c.has("t") || c.has("csecs")) && !c.has("sweep")) return true;
  vf::Case fc;
  return check_zone(z, h, false, c.get("sweep", "full") == "full", &fc, why);
}

static void run(const vf::Args& a, vf::Evidence& ev, vf::Reporter& rep) {
  EV = &ev; ARGS = &a;
  ev.rule = "zones as in C01. forward: anchored instants (every table entry incl. all 403 rule years and 400-year images, "
            "x deltas 0,+-1,+-2,+-offsets,+-1h,+-1d) restricted to [min+1d, max-1d]: lookup(lookup(t).cs) is UNIQUE with "
            "pre==t or REPEATED with t in {pre,post}, never SKIPPED. converse: anchored civil seconds (gap/overlap "
            "interiors, edges +-2 s, civil min/max): every instant returned for UNIQUE/REPEATED displays the civil second. "
            "Non-trivial = within a day of a table entry / inside or next to a gap or overlap; distinct by (zone, point).";
  zc::Ctx c{&a, &ev, &rep};
  zc::ZoneProp p;
  p.check_zone = check_zone;
  zc::run_all(c, p, 900, 5000);
}

int main(int argc, char** argv) { return vf::main_dispatch(argc, argv, "C03", run, replay); }
