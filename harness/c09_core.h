// C09 core: constructive accept/reject cases for cctz::parse() and the
// self-consistency oracle used for unstructured inputs.
#pragma once
#include <fuzzer/FuzzedDataProvider.h>
#include "fmtref.h"
#include "zonemodel.h"

namespace c09 {
using vf::i128;

struct Expect { bool accept = false; int64_t t = 0; int64_t fs = 0; };

inline bool parse_once(const std::string& fmt, const std::string& in, const cctz::time_zone& tz, int64_t* t, int64_t* fs) {
  cctz::time_point<cctz::seconds> sec; cctz::detail::femtoseconds f; std::string err;
  if (!cctz::detail::parse(fmt, in, tz, &sec, &f, &err)) return false;
  *t = fr::unix_of(sec); *fs = f.count();
  return true;
}
// clauses that hold for every (format, input): determinism; an accepted result is a real instant that re-formats and re-parses to itself
inline bool self_consistent(const std::string& fmt, const std::string& in, const cctz::time_zone& tz, std::string* why, bool* accepted, int64_t* t, int64_t* fs) {
  int64_t t2 = 0, f2 = 0;
  const bool ok1 = parse_once(fmt, in, tz, t, fs);
  const bool ok2 = parse_once(fmt, in, tz, &t2, &f2);
  *accepted = ok1;
  if (ok1 != ok2 || (ok1 && (*t != t2 || *fs != f2))) { *why = "parse() is not deterministic for ('" + vf::esc(fmt) + "', '" + vf::esc(in) + "')"; return false; }
  if (!ok1) return true;
  if (*fs < 0 || *fs >= 1000000000000000LL) { *why = "accepted result has sub-second part " + vf::i64_str(*fs) + " outside [0, 1 s)"; return false; }
  static const std::string canon = "%Y-%m-%dT%H:%M:%E*S%E*z";
  const std::string text = cctz::detail::format(canon, fr::tp(*t), cctz::detail::femtoseconds(*fs), cctz::utc_time_zone());
  int64_t t3 = 0, f3 = 0;
  if (!parse_once(canon, text, cctz::utc_time_zone(), &t3, &f3) || t3 != *t || f3 != *fs) {
    *why = "accepted result (t=" + vf::i64_str(*t) + ", fs=" + vf::i64_str(*fs) + ") does not survive re-format/re-parse ('" + text + "')"; return false;
  }
  return true;
}
inline bool check(const std::string& fmt, const std::string& in, const fr::ZoneEntry& z, const Expect& e, std::string* why) {
  bool acc = false; int64_t t = 0, fs = 0;
  if (!self_consistent(fmt, in, z.tz, why, &acc, &t, &fs)) return false;
  const std::string ctx = "parse('" + vf::esc(fmt) + "', '" + vf::esc(in) + "', " + z.label + ")";
  if (acc != e.accept) { *why = ctx + (acc ? " succeeded (t=" + vf::i64_str(t) + ") but must be rejected" : " failed but must succeed with t=" + vf::i64_str(e.t)); return false; }
  if (acc && (t != e.t || fs != e.fs)) { *why = ctx + " returned t=" + vf::i64_str(t) + " fs=" + vf::i64_str(fs) + ", the input denotes t=" + vf::i64_str(e.t) + " fs=" + vf::i64_str(e.fs); return false; }
  return true;
}

inline bool fuzz_oracle(const uint8_t* data, size_t size, std::string* why, bool* accepted) {
  FuzzedDataProvider fdp(data, size);
  const auto& zs = fr::zones();
  const size_t zi = fdp.ConsumeIntegralInRange<size_t>(0, zs.size() - 1);
  const size_t flen = fdp.ConsumeIntegralInRange<size_t>(0, 48);
  const std::string fmt = fdp.ConsumeBytesAsString(flen);
  const std::string in = fdp.ConsumeRemainingBytesAsString();
  bool acc = false; int64_t t, fs;
  const bool ok = self_consistent(fmt, in, zs[zi].tz, why, &acc, &t, &fs);
  if (accepted) *accepted = acc;
  return ok;
}

// ---- zone models for the panel (expected 'pre' reading without an offset) -------------------
inline const zm::Model* model_for(const fr::ZoneEntry& z) {
  static std::map<std::string, zm::Model> cache;
  auto it = cache.find(z.label);
  if (it != cache.end()) return it->second.f.ok ? &it->second : nullptr;
  const char* d = getenv("TZDIR");
  zm::Model m = zm::Model::build(zm::read_tzif(vf::read_file(std::string(d ? d : "/repo/testdata/zoneinfo") + "/" + z.label)));
  cache[z.label] = m;
  return cache[z.label].f.ok ? &cache[z.label] : nullptr;
}
// instant denoted by civil seconds csecs (read as UTC fields) in zone z, 'pre' reading; false if not decidable
inline bool zone_pre(const fr::ZoneEntry& z, i128 csecs, i128* out, std::string* kind) {
  if (z.label == "UTC") { *out = csecs; *kind = "UNIQUE"; return true; }
  if (z.label.compare(0, 6, "fixed:") == 0) { *out = csecs - atoi(z.label.c_str() + 6); *kind = "UNIQUE"; return true; }
  const zm::Model* m = model_for(z);
  if (!m || !m->in_domain()) return false;
  const zm::Model::CivilAnswer a = m->civil_to_instants(csecs);
  if (!a.consistent || a.crowded) return false;
  *out = a.pre; *kind = a.kind == 0 ? "UNIQUE" : a.kind == 1 ? "SKIPPED" : "REPEATED";
  return true;
}

// ---- case construction -------------------------------------------------------------------------
struct F {  // the chosen fields
  i128 y; int mo, d, hh, mi, ss; std::string frac; bool has_off; bool zulu; int osign, oh, om, os_;
};
struct Piece { std::string fmt, text; bool numeric_tail; };  // numeric_tail: text ends in a digit run of variable width

struct Built {
  const fr::ZoneEntry* zone; std::string fmt, input; Expect exp; std::string cls, note; std::vector<std::string> tags; bool nontrivial = false;
};

inline std::string num(i128 v, int width) { return fr::pad(v, width); }
inline const char* kMon[] = {"Jan", "Feb", "Mar", "Apr", "May", "Jun", "Jul", "Aug", "Sep", "Oct", "Nov", "Dec"};
inline const char* kMonth[] = {"January", "February", "March", "April", "May", "June", "July", "August", "September", "October", "November", "December"};
inline const char* kDay[] = {"Sun", "Mon", "Tue", "Wed", "Thu", "Fri", "Sat"};
inline const char* kDayFull[] = {"Sunday", "Monday", "Tuesday", "Wednesday", "Thursday", "Friday", "Saturday"};

inline Built build_case(const vf::Args* args = nullptr, vf::Evidence* ev = nullptr) {
  Built B;
  const auto& zs = fr::zones();
  B.zone = &zs[*vf::index(zs.size())];
  const bool reject_layout = *vf::range<int>(0, 2) == 0;   // strict layout used for planted defects
  F f;
  // --- fields
  int ystyle = *vf::range<int>(0, 7);
  switch (ystyle) {
    case 0: case 1: case 2: f.y = 1970 + *vf::range<int>(-2000, 2000); break;
    case 3: f.y = *rc::gen::element<int64_t>(-999, -1, 0, 1, 9999, 10000, -1000, 1969, 2068, 2069, 1968); break;
    case 4: f.y = *rc::gen::element<int64_t>(292277026596LL, 292277026595LL, -292277022657LL, -292277022656LL, 292277026597LL, -292277022658LL); break;
    case 5: f.y = *vf::edge_i64(); break;
    case 6: f.y = *rc::gen::element<int64_t>(INT64_MAX, INT64_MIN, INT64_MAX - 1, INT64_MIN + 1); break;
    default: f.y = *vf::range<int64_t>(-300000000000LL, 300000000000LL);
  }
  f.mo = *rc::gen::weightedOneOf<int>({{3, vf::range<int>(1, 12)}, {1, rc::gen::element(1, 2, 12)}});
  const int dim = refcal::days_in_month(f.y, f.mo);
  f.d = *rc::gen::weightedOneOf<int>({{3, vf::range<int>(1, dim)}, {1, rc::gen::element(1, dim, 28)}});
  if (f.d > dim) f.d = dim;
  f.hh = *rc::gen::weightedOneOf<int>({{3, vf::range<int>(0, 23)}, {1, rc::gen::element(0, 23, 12, 11, 13)}});
  f.mi = *rc::gen::weightedOneOf<int>({{3, vf::range<int>(0, 59)}, {1, rc::gen::element(0, 59)}});
  f.ss = *rc::gen::weightedOneOf<int>({{4, vf::range<int>(0, 59)}, {1, rc::gen::element(0, 59)}, {1, rc::gen::just(60)}});
  { int nd = *rc::gen::weightedElement<int>({{3, 0}, {2, 1}, {2, 3}, {1, 9}, {1, 15}, {1, 16}, {1, 20}});
    for (int i = 0; i < nd; ++i) f.frac.push_back((char)('0' + *vf::range<int>(0, 9)));
    if (nd && *vf::range<int>(0, 4) == 0) f.frac = std::string(nd, '9'); }
  int ostyle = *vf::range<int>(0, 5);
  f.has_off = ostyle != 0; f.zulu = ostyle == 1;
  f.osign = *rc::gen::element(1, -1); f.oh = *rc::gen::weightedOneOf<int>({{3, vf::range<int>(0, 23)}, {1, rc::gen::element(0, 23)}});
  f.om = ostyle >= 3 ? *vf::range<int>(0, 59) : 0; f.os_ = ostyle >= 5 ? *vf::range<int>(0, 59) : 0;
  if (f.zulu) { f.oh = f.om = f.os_ = 0; }
  // fields of an instant within 2 days of the int64 limits (on either side of them), read in the chosen offset
  if (f.has_off && *vf::range<int>(0, 7) == 0) {
    const i128 inst = (*rc::gen::arbitrary<bool>() ? refcal::kI64Max : refcal::kI64Min) + *rc::gen::element<int64_t>(0, 1, -1, 2, -2, 59, -59, 60, -60, 86399, -86399, 86400, -86400, 172800, -172800);
    const refcal::Civil c = refcal::from_secs(inst + (i128)f.osign * (f.oh * 3600 + f.om * 60 + f.os_));
    f.y = c.y; f.mo = c.m; f.d = c.d; f.hh = c.hh; f.mi = c.mm; f.ss = c.ss;
    B.tags.push_back("fields_of_an_instant_at_the_int64_limits");
  }
  // a civil time inside a gap/overlap of the supplied zone, when it has transitions and no offset is given
  if (!f.has_off && *vf::range<int>(0, 2) == 0) {
    cctz::time_zone::civil_transition tr;
    if (B.zone->tz.next_transition(fr::tp(*vf::range<int64_t>(-2000000000LL, 2000000000LL)), &tr)) {
      const cctz::civil_second a = std::min(tr.from, tr.to), b = std::max(tr.from, tr.to);
      cctz::civil_second cs = a + *vf::range<int64_t>(-2, (b - a) + 1);
      if (*vf::range<int>(0, 2) == 0) cs = *rc::gen::element(a - 1, b - 1, a, b);  // the seconds at the edges of the gap/overlap
      f.y = cs.year(); f.mo = cs.month(); f.d = cs.day(); f.hh = cs.hour(); f.mi = cs.minute(); f.ss = cs.second();
      // ":60" written for the second after an edge second ending in :59 (rolls into / out of the gap or overlap)
      if (f.ss == 59 && *vf::range<int>(0, 1)) f.ss = 60;
      B.tags.push_back("civil_near_transition_of_supplied_zone");
    }
  }
  // --- format pieces + independent printer
  const i128 dn = refcal::days_from_civil(f.y, f.mo, f.d);
  const int wday = (refcal::weekday_mon0(dn) + 1) % 7, yday = refcal::yearday(f.y, f.mo, f.d) - 1;
  auto w2 = [&](int v) { return (reject_layout || *vf::range<int>(0, 2)) ? fr::two(v) : std::to_string(v); };
  std::vector<Piece> P;
  bool percent_s = !reject_layout && *vf::range<int>(0, 14) == 0;
  bool year_two_digit = false, week_form = false, twelve = false;
  std::string date_note;
  if (percent_s) {
    int64_t v = *vf::edge_i64();
    P.push_back(Piece{"%s", vf::i64_str(v), true});
    B.exp.accept = true; B.exp.t = v; B.exp.fs = 0;
    B.tags.push_back("percent_s"); B.nontrivial = true;
  } else {
    // year
    if (f.y >= 1969 && f.y <= 2068 && !reject_layout && *vf::range<int>(0, 3) == 0) { P.push_back(Piece{"%y", fr::two((int)(f.y % 100)), false}); year_two_digit = true; }
    else if (f.y >= -999 && f.y <= 9999 && *vf::range<int>(0, 2) == 0) P.push_back(Piece{"%E4Y", fr::pad(f.y, 4), false});
    else P.push_back(Piece{"%Y", vf::i128_str(f.y), true});
    // date
    int ds = *vf::range<int>(0, 6);
    if (reject_layout && ds >= 5) ds = 0;
    switch (ds) {
      case 0: case 1: P.push_back(Piece{"%m", w2(f.mo), true}); P.push_back(Piece{*vf::range<int>(0, 1) ? "%d" : "%e", w2(f.d), true}); break;
      case 2: P.push_back(Piece{*vf::range<int>(0, 1) ? "%b" : "%B", *vf::range<int>(0, 1) ? kMon[f.mo - 1] : kMonth[f.mo - 1], false}); P.push_back(Piece{"%d", w2(f.d), true}); date_note = "month name"; break;
      case 3: P.push_back(Piece{"%U", w2((yday + 7 - wday) / 7), true}); P.push_back(Piece{"%w", std::to_string(wday), true}); week_form = true; break;
      case 4: P.push_back(Piece{"%W", w2((yday + 7 - ((wday + 6) % 7)) / 7), true}); P.push_back(Piece{"%u", std::to_string(wday ? wday : 7), true}); week_form = true; break;
      case 5: P.push_back(Piece{"%m", w2(f.mo), true}); P.push_back(Piece{"%d", w2(f.d), true});
              P.push_back(Piece{*vf::range<int>(0, 1) ? "%a" : "%A", *vf::range<int>(0, 1) ? kDay[wday] : kDayFull[wday], false}); break;
      default: P.push_back(Piece{"%m", w2(f.mo), true}); P.push_back(Piece{"%d", w2(f.d), true}); P.push_back(Piece{"%j", fr::pad(yday + 1, 3), false}); break;
    }
    // hour
    if (!reject_layout && *vf::range<int>(0, 4) == 0) {
      twelve = true;
      const int h12 = f.hh % 12 == 0 ? 12 : f.hh % 12;
      P.push_back(Piece{"%I", w2(h12), true}); P.push_back(Piece{"%p", f.hh >= 12 ? "PM" : "AM", false});
    } else P.push_back(Piece{"%H", w2(f.hh), true});
    P.push_back(Piece{"%M", w2(f.mi), true});
    // seconds (+ fraction)
    int ss = *vf::range<int>(0, 3);
    const std::string sec = w2(f.ss);
    switch (ss) {
      case 0: P.push_back(Piece{"%S", sec, true}); f.frac.clear(); break;
      case 1: P.push_back(Piece{"%E*S", sec + (f.frac.empty() ? "" : "." + f.frac), true}); break;
      case 2: P.push_back(Piece{"%E" + std::to_string(*vf::range<int>(0, 20)) + "S", sec + (f.frac.empty() ? "" : "." + f.frac), true}); break;
      default: P.push_back(Piece{"%S.%E*f", sec + "." + f.frac, true}); break;
    }
    // offset
    if (f.has_off) {
      const std::string spec = *rc::gen::element<std::string>("%z", "%Ez", "%E*z", "%:z", "%::z", "%:::z");
      std::string txt;
      if (f.zulu) txt = *rc::gen::element<std::string>("Z", "z");
      else {
        const bool colon = spec != "%z" && *vf::range<int>(0, 3) != 0;
        txt = std::string(1, f.osign < 0 ? '-' : '+') + fr::two(f.oh);
        if (f.om || f.os_ || *vf::range<int>(0, 1)) { txt += (colon ? ":" : "") + fr::two(f.om); if (f.os_ || *vf::range<int>(0, 3) == 0) txt += (colon ? ":" : "") + fr::two(f.os_); }
      }
      P.push_back(Piece{spec, txt, true});
    }
    // known finding R12: a week-number date combined with a strptime-handled year (%y): glibc recomputes tm_wday
    if (week_form && year_two_digit && args && args->excluded("week_number_with_libc_year")) {
      if (ev) ev->excl("week_number_with_libc_year");
      for (auto& p : P) if (p.fmt == "%y") { p.fmt = "%Y"; p.text = vf::i128_str(f.y); p.numeric_tail = true; }
      year_two_digit = false;
    }
    // random order
    for (size_t i = P.size(); i > 1; --i) std::swap(P[i - 1], P[*vf::index(i)]);
    // "%I" must stay before "%p"? (no: both orders are legal)  "%e"/"%d" directly after a name needs the separator anyway.
    // --- the denoted instant
    i128 csecs = refcal::to_secs(refcal::Civil{f.y, f.mo, f.d, f.hh, f.mi, f.ss == 60 ? 59 : f.ss}) + (f.ss == 60 ? 1 : 0);
    std::string fr15 = f.frac.substr(0, std::min<size_t>(15, f.frac.size()));
    int64_t fsv = 0; for (char ch : fr15) fsv = fsv * 10 + (ch - '0'); for (size_t i = fr15.size(); i < 15; ++i) fsv *= 10;
    if (f.ss == 60) fsv = 0;
    i128 inst; std::string kind = "UNIQUE";
    bool decidable = true;
    if (f.has_off) inst = csecs - (i128)f.osign * (f.oh * 3600 + f.om * 60 + f.os_);
    else decidable = zone_pre(*B.zone, csecs, &inst, &kind);
    if (!decidable) RC_DISCARD("civil time near crowded changes of the supplied zone");
    // the civil time itself must be representable for the fields to denote anything
    const refcal::Civil cc = refcal::from_secs(csecs);
    B.exp.accept = refcal::fits64(inst) && refcal::fits64(cc.y);
    B.exp.t = B.exp.accept ? (int64_t)inst : 0; B.exp.fs = B.exp.accept ? fsv : 0;
    if (kind != "UNIQUE") { B.tags.push_back("civil_" + kind + "_in_supplied_zone"); B.nontrivial = true; }
    if (f.ss == 60) { B.tags.push_back("second_60"); B.nontrivial = true; }
    if (f.frac.size() > 15) { B.tags.push_back("more_than_15_fraction_digits"); B.nontrivial = true; }
    if (!refcal::fits64(inst)) { B.tags.push_back("instant_outside_int64"); B.nontrivial = true; }
    else if (inst > refcal::kI64Max - 2 * 86400 || inst < refcal::kI64Min + 2 * 86400) { B.tags.push_back("instant_within_2_days_of_limit"); B.nontrivial = true; }
    if (f.d == dim || f.d == 1 || f.hh == 23 || f.hh == 0 || f.mi == 59 || f.ss == 59 || f.mo == 12 || f.mo == 1) B.nontrivial = true;
    if (week_form) B.tags.push_back("date_by_week_number");
    if (twelve) B.tags.push_back("twelve_hour_clock");
    if (year_two_digit) B.tags.push_back("two_digit_year");
  }
  // --- assemble with separators
  static const std::vector<std::string> strict = {"/", ",", ";", "|", "#", "@", "=", "~", "_"};
  static const std::vector<std::string> loose = {" ", "  ", "/", ", ", "; ", "|", " # ", "%n", "%t", " %% ", "T", "_"};
  std::vector<std::string> seps;  // seps[i] follows piece i (format text); input text mirrors it
  std::string fmt, in;
  auto sep_in = [](const std::string& s) -> std::string { if (s == "%n" || s == "%t") return " "; std::string r = s; size_t p; while ((p = r.find("%%")) != std::string::npos) r.replace(p, 2, "%"); return r; };
  if (!reject_layout && *vf::range<int>(0, 3) == 0) in += *rc::gen::element<std::string>(" ", "  ", "\t");  // leading blanks are skipped
  for (size_t i = 0; i < P.size(); ++i) {
    fmt += P[i].fmt; in += P[i].text;
    if (i + 1 < P.size()) {
      std::string s = reject_layout ? strict[*vf::index(strict.size())] : loose[*vf::index(loose.size())];
      // a separator starting with 'T' or a letter must not follow a name/AMPM piece, and ':'/'.' never appear
      if (!P[i].numeric_tail && !s.empty() && isalpha((unsigned char)s[0])) s = " ";
      seps.push_back(s); fmt += s;
      std::string si = sep_in(s);
      if (!reject_layout && s.find(' ') != std::string::npos && *vf::range<int>(0, 2) == 0) si += "  ";  // format blanks absorb any run of blanks
      in += si;
    }
  }
  if (!reject_layout && *vf::range<int>(0, 3) == 0) in += *rc::gen::element<std::string>(" ", "\n", " \t ");  // trailing blanks are skipped
  B.fmt = fmt; B.input = in;
  B.cls = B.exp.accept ? "accept" : "accept_form_but_instant_out_of_range";
  B.note = "constructed from fields";
  // --- planted defect
  if (reject_layout && !percent_s && *vf::range<int>(0, 3) != 0) {
    // rebuild the input with one defect; pieces are at full width and separated by non-blank, non-absorbable literals
    int kind = *vf::range<int>(0, 9);
    std::vector<std::string> texts; for (auto& p : P) texts.push_back(p.text);
    auto find = [&](const std::string& spec) -> int { for (size_t i = 0; i < P.size(); ++i) if (P[i].fmt == spec) return (int)i; return -1; };
    std::string note; bool planted = false;
    auto setp = [&](const char* spec, const std::string& v, const std::string& n) { int i = find(spec); if (i >= 0) { texts[i] = v; note = n; planted = true; } };
    switch (kind) {
      case 0: setp("%m", *rc::gen::element<std::string>("00", "13", "99"), "month out of 1..12"); break;
      case 1: { int i = find("%d"); if (i < 0) i = find("%e"); if (i >= 0) { texts[i] = *rc::gen::element<std::string>("00", "32", "99"); note = "day out of 1..31"; planted = true; } break; }
      case 2: setp("%H", *rc::gen::element<std::string>("24", "25", "99"), "hour out of 0..23"); break;
      case 3: setp("%M", *rc::gen::element<std::string>("60", "61", "99"), "minute out of 0..59"); break;
      case 4: { int i = find("%S"); if (i >= 0) { texts[i] = *rc::gen::element<std::string>("61", "62", "99"); note = "second out of 0..60"; planted = true; } break; }
      case 5: {  // a date that does not exist (no normalization)
        int im = find("%m"), id = find("%d"); if (id < 0) id = find("%e");
        if (im >= 0 && id >= 0) {
          int pick = *vf::range<int>(0, 3);
          static const int m30[] = {4, 6, 9, 11};
          if (pick == 0) { texts[im] = "02"; texts[id] = "30"; }
          else if (pick == 1 && !refcal::is_leap(f.y)) { texts[im] = "02"; texts[id] = "29"; }
          else { texts[im] = fr::two(m30[*vf::index(4)]); texts[id] = "31"; }
          note = "date does not exist"; planted = true;
        }
        break;
      }
      case 6: {  // week-number / weekday fields out of range
        if (find("%U") >= 0 && *vf::range<int>(0, 1)) setp("%U", "54", "%U out of 0..53");
        else if (find("%W") >= 0 && *vf::range<int>(0, 1)) setp("%W", "54", "%W out of 0..53");
        else if (find("%w") >= 0) setp("%w", *rc::gen::element<std::string>("7", "8"), "%w out of 0..6");
        else if (find("%u") >= 0) setp("%u", *rc::gen::element<std::string>("0", "8"), "%u out of 1..7");
        break;
      }
      case 7: {  // offset fields out of range (colon form keeps the tail unabsorbable: separators are never ':')
        for (const char* s : {"%z", "%Ez", "%E*z", "%:z", "%::z", "%:::z"}) {
          int i = find(s);
          if (i >= 0 && !f.zulu) {
            int which = *vf::range<int>(0, 3);
            std::string sg(1, f.osign < 0 ? '-' : '+');
            if (which == 3) {  // a dangling ':' after a complete hh or hh:mm group (nothing can absorb it: separators are never ':')
              texts[i] = sg + fr::two(f.oh) + (*vf::range<int>(0, 1) ? ":" : ":" + fr::two(f.om) + ":");
              if (std::string(s) == "%z") { texts[i] = sg + fr::two(f.oh) + fr::two(f.om) + ":"; }
              note = "offset with a dangling ':'"; planted = true; break;
            }
            if (which == 0) texts[i] = sg + *rc::gen::element<std::string>("24", "25", "99") + ":00";
            else if (which == 1) texts[i] = sg + fr::two(f.oh) + ":" + *rc::gen::element<std::string>("60", "99");
            else texts[i] = sg + fr::two(f.oh) + ":" + fr::two(f.om) + ":" + *rc::gen::element<std::string>("60", "99");
            if (std::string(s) == "%z") { size_t p; while ((p = texts[i].find(':')) != std::string::npos) texts[i].erase(p, 1); }  // what a bad field leaves behind meets a non-digit separator or the end
            note = "offset field out of range"; planted = true; break;
          }
        }
        break;
      }
      case 8: {  // year forms
        int i = find("%E4Y");
        if (i >= 0) { texts[i] = *vf::range<int>(0, 1) ? texts[i].substr(0, 3) : texts[i] + "0"; note = "%E4Y with 3 or 5 characters"; planted = true; }
        else if ((i = find("%Y")) >= 0) { texts[i] = *rc::gen::element<std::string>("9223372036854775808", "-9223372036854775809", "99999999999999999999"); note = "year outside int64"; planted = true; }
        break;
      }
      default: break;
    }
    std::string in2;
    int sepdef = planted ? -1 : *vf::range<int>(0, 2);
    size_t victim = seps.empty() ? 0 : *vf::index(seps.size());
    for (size_t i = 0; i < P.size(); ++i) {
      in2 += texts[i];
      if (i < seps.size()) {
        std::string si = seps[i];
        if (sepdef == 0 && i == victim) { si = (si == "!" ? "?" : "!"); note = "separator replaced"; planted = true; }
        else if (sepdef == 1 && i == victim) { si = ""; note = "separator deleted"; planted = true; }
        in2 += si;
      }
    }
    if (!planted) { in2 += " x"; note = "' x' appended"; planted = true; }
    B.input = in2; B.exp.accept = false; B.exp.t = 0; B.exp.fs = 0;
    B.cls = "reject_planted_defect"; B.note = note; B.nontrivial = true;
    B.tags.push_back("defect:" + note);
  }
  return B;
}

}  // namespace c09
