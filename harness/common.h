// Shared plumbing for all check binaries: argument parsing, case (replay)
// files, evidence counters, hashing.  No cctz header is included here.
#pragma once
#include <time.h>
#include <algorithm>
#include <cstdint>
#include <cstdio>
#include <cstdlib>
#include <csignal>
#include <cstring>
#include <fstream>
#include <functional>
#include <map>
#include <sstream>
#include <string>
#include <unordered_set>
#include <utility>
#include <vector>

namespace vf {

using i128 = __int128;
using u128 = unsigned __int128;

inline std::string i128_str(i128 v) {
  if (v == 0) return "0";
  bool neg = v < 0;
  u128 u = neg ? (u128)(-(v + 1)) + 1 : (u128)v;
  std::string s;
  while (u) { s.push_back(char('0' + (int)(u % 10))); u /= 10; }
  if (neg) s.push_back('-');
  std::reverse(s.begin(), s.end());
  return s;
}
inline i128 str_i128(const std::string& s) {
  size_t i = 0; bool neg = false;
  if (i < s.size() && (s[i] == '-' || s[i] == '+')) { neg = s[i] == '-'; ++i; }
  i128 v = 0;
  for (; i < s.size() && s[i] >= '0' && s[i] <= '9'; ++i) v = v * 10 - (s[i] - '0');
  return neg ? v : -v;
}
inline std::string i64_str(int64_t v) { return i128_str(v); }

inline std::string hex(const std::string& b) {
  static const char* d = "0123456789abcdef";
  std::string s; s.reserve(b.size() * 2);
  for (unsigned char c : b) { s.push_back(d[c >> 4]); s.push_back(d[c & 15]); }
  return s;
}
inline std::string unhex(const std::string& h) {
  auto v = [](char c) { return c <= '9' ? c - '0' : (c | 32) - 'a' + 10; };
  std::string s; s.reserve(h.size() / 2);
  for (size_t i = 0; i + 1 < h.size(); i += 2) s.push_back(char(v(h[i]) * 16 + v(h[i + 1])));
  return s;
}
// Printable rendering of arbitrary bytes (for samples / messages).
inline std::string esc(const std::string& b) {
  std::string s;
  for (unsigned char c : b) {
    if (c == '\\') s += "\\\\";
    else if (c >= 0x20 && c < 0x7f) s.push_back(char(c));
    else { char buf[8]; snprintf(buf, sizeof buf, "\\x%02x", c); s += buf; }
  }
  return s;
}
inline std::string json_str(const std::string& b) {
  std::string s = "\"";
  for (unsigned char c : b) {
    if (c == '"') s += "\\\"";
    else if (c == '\\') s += "\\\\";
    else if (c >= 0x20 && c < 0x7f) s.push_back(char(c));
    else { char buf[8]; snprintf(buf, sizeof buf, "\\u%04x", c); s += buf; }
  }
  return s + "\"";
}

inline uint64_t fnv(const void* p, size_t n, uint64_t h = 1469598103934665603ull) {
  const unsigned char* b = (const unsigned char*)p;
  for (size_t i = 0; i < n; ++i) { h ^= b[i]; h *= 1099511628211ull; }
  return h;
}
inline uint64_t fnv(const std::string& s, uint64_t h = 1469598103934665603ull) {
  return fnv(s.data(), s.size(), h);
}
// splitmix64: used ONLY to derive engine seeds from (VERIF_SEED, shard, stream)
// and to pick deterministic strides in exhaustive sweeps; never inside a
// property body.
inline uint64_t splitmix(uint64_t x) {
  x += 0x9e3779b97f4a7c15ull;
  x = (x ^ (x >> 30)) * 0xbf58476d1ce4e5b9ull;
  x = (x ^ (x >> 27)) * 0x94d049bb133111ebull;
  return x ^ (x >> 31);
}
inline uint64_t mix(uint64_t h, uint64_t v) { return splitmix(h * 0x9e3779b97f4a7c15ull ^ splitmix(v)); }

inline std::string read_file(const std::string& path, bool* ok = nullptr) {
  std::ifstream f(path, std::ios::binary);
  if (ok) *ok = bool(f);
  std::stringstream ss; ss << f.rdbuf();
  return ss.str();
}
inline void write_file(const std::string& path, const std::string& data) {
  std::ofstream f(path, std::ios::binary | std::ios::trunc);
  f.write(data.data(), (std::streamsize)data.size());
}

// ---------------------------------------------------------------------------
// A replayable case: ordered key=value lines, values hex-free printable text
// (binary payloads are stored with hex()).
struct Case {
  std::vector<std::pair<std::string, std::string>> kv;
  Case& set(const std::string& k, const std::string& v) {
    for (auto& p : kv) if (p.first == k) { p.second = v; return *this; }
    kv.emplace_back(k, v); return *this;
  }
  Case& set(const std::string& k, i128 v) { return set(k, i128_str(v)); }
  bool has(const std::string& k) const {
    for (auto& p : kv) if (p.first == k) return true;
    return false;
  }
  std::string get(const std::string& k, const std::string& def = "") const {
    for (auto& p : kv) if (p.first == k) return p.second;
    return def;
  }
  i128 num(const std::string& k, i128 def = 0) const {
    return has(k) ? str_i128(get(k)) : def;
  }
  std::string serialize() const {
    std::string s;
    for (auto& p : kv) { s += p.first; s += '='; s += p.second; s += '\n'; }
    return s;
  }
  static Case parse(const std::string& text) {
    Case c; std::istringstream is(text); std::string line;
    while (std::getline(is, line)) {
      if (line.empty() || line[0] == '#') continue;
      size_t e = line.find('=');
      if (e == std::string::npos) continue;
      c.kv.emplace_back(line.substr(0, e), line.substr(e + 1));
    }
    return c;
  }
  std::string brief(size_t maxlen = 300) const {
    std::string s;
    for (auto& p : kv) {
      std::string v = p.second;
      if (v.size() > 80) v = v.substr(0, 77) + "...";
      if (!s.empty()) s += " ";
      s += p.first + "=" + v;
      if (s.size() > maxlen) { s += " ..."; break; }
    }
    return s;
  }
};

// ---------------------------------------------------------------------------
// Recent cases: checks of functions that should be stateless run thousands of cases in one process.  If the code
// under test keeps state between calls (a cache, a static buffer), a failure depends on the calls before it and would
// not reproduce from the failing case alone.  A harness that opts in (History::enabled()) gets the last few cases
// attached to every failing case ("recent_cases_hex"); replay runs them first, in order.
struct History {
  static bool& enabled() { static bool e = false; return e; }
  static std::vector<std::string>& ring() { static std::vector<std::string> r; return r; }
  static void push(const std::string& ser) {
    if (!enabled() || ser.size() > 8192) return;
    auto& r = ring(); r.push_back(ser); if (r.size() > 3) r.erase(r.begin());
  }
  static std::string packed();
};

// ---------------------------------------------------------------------------
struct Args {
  std::string mode = "run";  // run | replay
  std::string tier = "quick";
  uint64_t seed = 0;
  int shard = 0, nshards = 1;
  std::string out;         // partial evidence path (json)
  std::string replay_dir;  // where candidates are written
  std::string replay_file;
  std::string workdir;     // scratch dir for this run
  std::vector<std::string> exclude;          // active known-finding matchers
  std::map<std::string, std::string> extra;  // --key=value
  bool excluded(const std::string& m) const {
    return std::find(exclude.begin(), exclude.end(), m) != exclude.end();
  }
  bool thorough() const { return tier == "thorough"; }
  std::string opt(const std::string& k, const std::string& d = "") const {
    auto it = extra.find(k); return it == extra.end() ? d : it->second;
  }
  // budget scaling: quick=q, thorough=t (per shard)
  long budget(long q, long t) const {
    if (extra.count("budget_scale")) {
      double s = atof(extra.at("budget_scale").c_str());
      return std::max<long>(1, (long)((thorough() ? t : q) * s));
    }
    return thorough() ? t : q;
  }
  uint64_t stream_seed(uint64_t stream) const {
    uint64_t s = splitmix(seed * 1000003ull + (uint64_t)shard * 7919ull + stream * 104729ull + 17);
    return s ? s : 1;
  }
};

inline Args parse_args(int argc, char** argv) {
  Args a;
  for (int i = 1; i < argc; ++i) {
    std::string s = argv[i];
    auto next = [&]() -> std::string { return i + 1 < argc ? argv[++i] : ""; };
    if (s == "--replay") { a.mode = "replay"; a.replay_file = next(); }
    else if (s == "--tier") a.tier = next();
    else if (s == "--seed") a.seed = strtoull(next().c_str(), nullptr, 10);
    else if (s == "--shard") { std::string v = next(); sscanf(v.c_str(), "%d/%d", &a.shard, &a.nshards); }
    else if (s == "--out") a.out = next();
    else if (s == "--replay-dir") a.replay_dir = next();
    else if (s == "--workdir") a.workdir = next();
    else if (s == "--exclude") a.exclude.push_back(next());
    else if (s.rfind("--", 0) == 0 && s.find('=') != std::string::npos) {
      size_t e = s.find('=');
      a.extra[s.substr(2, e - 2)] = s.substr(e + 1);
    }
  }
  return a;
}

// ---------------------------------------------------------------------------
struct Evidence {
  uint64_t evaluations = 0;
  std::unordered_set<uint64_t> nontrivial;
  std::map<std::string, uint64_t> classes;
  std::map<std::string, uint64_t> excluded;
  std::map<std::string, uint64_t> unspecified;
  std::map<std::string, std::string> extra;  // raw JSON values
  std::vector<std::string> samples;
  std::map<std::string, int> sample_per_class;
  std::vector<std::string> candidates;
  std::string rule;
  bool exhaustive = false;
  size_t max_samples = 24;

  void eval(uint64_t n = 1) { evaluations += n; }
  void nt(uint64_t key) { nontrivial.insert(key); }
  void cls(const std::string& c, uint64_t n = 1) { classes[c] += n; }
  void excl(const std::string& c, uint64_t n = 1) { excluded[c] += n; }
  void unspec(const std::string& c, uint64_t n = 1) { unspecified[c] += n; }
  // keep at most 3 samples per tag and max_samples overall
  void sample(const std::string& tag, const std::string& text) {
    if (samples.size() >= max_samples) return;
    int& n = sample_per_class[tag];
    if (n >= 3) return;
    ++n;
    samples.push_back("[" + tag + "] " + text);
  }
  bool want_sample(const std::string& tag) const {
    if (samples.size() >= max_samples) return false;
    auto it = sample_per_class.find(tag);
    return it == sample_per_class.end() || it->second < 3;
  }

  static std::string map_json(const std::map<std::string, uint64_t>& m) {
    std::string s = "{"; bool first = true;
    for (auto& p : m) {
      if (!first) s += ","; first = false;
      s += json_str(p.first) + ":" + std::to_string(p.second);
    }
    return s + "}";
  }
  void write(const std::string& path) const {
    // hashes of non-trivial keys go to a side file so the driver can count
    // distinct keys across shards exactly.
    std::string ntpath = path + ".nt";
    {
      std::vector<uint64_t> v(nontrivial.begin(), nontrivial.end());
      std::ofstream f(ntpath, std::ios::binary | std::ios::trunc);
      f.write((const char*)v.data(), (std::streamsize)(v.size() * sizeof(uint64_t)));
    }
    std::string s = "{";
    s += "\"evaluations\":" + std::to_string(evaluations);
    s += ",\"nt_count\":" + std::to_string(nontrivial.size());
    s += ",\"nt_file\":" + json_str(ntpath);
    s += ",\"rule\":" + json_str(rule);
    s += ",\"exhaustive\":" + std::string(exhaustive ? "true" : "false");
    s += ",\"classes\":" + map_json(classes);
    s += ",\"excluded\":" + map_json(excluded);
    s += ",\"unspecified\":" + map_json(unspecified);
    s += ",\"extra\":{"; {
      bool first = true;
      for (auto& p : extra) { if (!first) s += ","; first = false; s += json_str(p.first) + ":" + p.second; }
    }
    s += "}";
    s += ",\"samples\":["; for (size_t i = 0; i < samples.size(); ++i) { if (i) s += ","; s += json_str(samples[i]); }
    s += "]";
    s += ",\"candidates\":["; for (size_t i = 0; i < candidates.size(); ++i) { if (i) s += ","; s += json_str(candidates[i]); }
    s += "]}";
    write_file(path, s + "\n");
  }
};

// Writes a failing case; returns the path. Candidates are named by content hash
// so that repeated failures of the same minimal case collapse.
struct Reporter {
  const Args* args = nullptr;
  Evidence* ev = nullptr;
  std::string prop;
  std::string latest_path;   // while shrinking: last failing case
  std::string latest_text;
  int stream = 0;
  time_t first_failure = 0;
  // Shrinking a failure that depends on the thread schedule wanders (an attempt that happens not to fail counts as
  // "passes"): a property may give shrinking a budget and let every later attempt pass, which ends the search with
  // the smallest failing case seen so far.
  bool shrink_budget_spent(int seconds) const { return first_failure != 0 && time(nullptr) - first_failure > seconds; }
  // Called from inside a property body on failure (possibly many times while
  // the engine shrinks): remembers the most recent failing case.
  void failing(const Case& c, const std::string& why) {
    if (!first_failure) first_failure = time(nullptr);
    Case cc = c;
    if (History::enabled() && !History::ring().empty()) cc.set("recent_cases_hex", History::packed());
    cc.set("property", prop);
    cc.set("why", why);
    latest_text = cc.serialize();
  }
  // Called after the engine finished (shrunk): persist the last failing case.
  std::string commit() {
    if (latest_text.empty()) return "";
    char name[64];
    // hash without the 'why' line so equal cases collapse
    snprintf(name, sizeof name, "%016llx", (unsigned long long)fnv(latest_text));
    std::string dir = args && !args->replay_dir.empty() ? args->replay_dir : ".";
    std::string path = dir + "/" + prop + "-" + name + ".case";
    write_file(path, latest_text);
    if (ev) ev->candidates.push_back(path);
    fprintf(stdout, "CANDIDATE %s\n", path.c_str());
    fflush(stdout);
    latest_text.clear();
    return path;
  }
};

// ---------------------------------------------------------------------------
// "Current case" tracking: a sanitizer report, failed assert or fatal signal
// inside cctz kills the process before the engine can shrink or report.  The
// property body registers a serializer for the case it is about to run; the
// death hooks below dump it so the driver can confirm and report it.
struct Current {
  static std::function<Case()>& fn() { static std::function<Case()> f; return f; }
  static std::string& path() { static std::string p; return p; }
  static std::string& prop() { static std::string p; return p; }
  static void dump(const char* how) {
    static bool done = false;
    if (done || !fn() || path().empty()) return;
    done = true;
    Case c = fn()();
    if (History::enabled() && !History::ring().empty()) c.set("recent_cases_hex", History::packed());
    c.set("property", prop());
    c.set("why", how);
    write_file(path(), c.serialize());
  }
};
struct CurrentScope {  // RAII registration
  std::function<Case()> saved;
  explicit CurrentScope(std::function<Case()> f) { saved = Current::fn(); Current::fn() = std::move(f); }
  ~CurrentScope() { if (History::enabled() && Current::fn()) History::push(Current::fn()().serialize()); Current::fn() = saved; }
};
}  // namespace vf
extern "C" void __sanitizer_set_death_callback(void (*)(void)) __attribute__((weak));
namespace vf {
inline void death_cb() { Current::dump("process died: sanitizer report (see log)"); }
inline void abort_handler(int sig) {
  Current::dump(sig == SIGABRT ? "process died: abort()/failed assert"
               : sig == SIGALRM ? "timeout: the operation did not terminate within the alarm limit" : "process died: fatal signal");
  signal(sig, SIG_DFL);
  raise(sig);
}
inline void install_death_hooks(const Args& a, const std::string& prop) {
  if (a.replay_dir.empty()) return;
  Current::path() = a.replay_dir + "/current-" + std::to_string(a.shard) + ".case";
  Current::prop() = prop;
  if (__sanitizer_set_death_callback) __sanitizer_set_death_callback(death_cb);
  signal(SIGABRT, abort_handler);
  signal(SIGALRM, abort_handler);
}

inline std::string History::packed() { std::string t; for (auto& x : ring()) t += hex(x) + ","; return t; }

using RunFn = std::function<void(const Args&, Evidence&, Reporter&)>;
using ReplayFn = std::function<bool(const Case&, std::string*)>;

// Standard main: run mode fills evidence and writes partial; replay mode runs
// one saved case through the oracle without any generator library.
inline int main_dispatch(int argc, char** argv, const std::string& prop,
                         RunFn run, ReplayFn replay) {
  setvbuf(stdout, nullptr, _IOLBF, 0);
  Args a = parse_args(argc, argv);
  if (a.mode == "replay") {
    bool ok = false;
    std::string text = read_file(a.replay_file, &ok);
    if (!ok) { fprintf(stderr, "cannot read %s\n", a.replay_file.c_str()); return 2; }
    Case c = Case::parse(text);
    std::string why;
    if (c.has("recent_cases_hex")) {  // the cases that ran just before this one in the original process, in order
      std::istringstream hs(c.get("recent_cases_hex")); std::string tok, ignored;
      while (std::getline(hs, tok, ',')) if (!tok.empty()) replay(Case::parse(unhex(tok)), &ignored);
    }
    bool pass = replay(c, &why);
    if (pass) { printf("REPLAY-PASS %s\n", a.replay_file.c_str()); return 0; }
    printf("REPLAY-FAIL %s: %s\n", a.replay_file.c_str(), why.c_str());
    return 3;
  }
  install_death_hooks(a, prop);
  Evidence ev;
  Reporter rep; rep.args = &a; rep.ev = &ev; rep.prop = prop;
  run(a, ev, rep);
  if (!a.out.empty()) ev.write(a.out);
  return ev.candidates.empty() ? 0 : 3;
}

}  // namespace vf
