// C09: parse() accepts only well-formed in-range input and returns the denoted
// instant.  Every expectation is provable from the construction of the case:
//  A (accept): fields are chosen first, the input text is rendered from them by
//     an independent printer, so the denoted instant is known without parsing.
//  B (reject): an accept case with exactly one planted defect that the rest of
//     the format provably cannot re-absorb.
// Unstructured (format, input) pairs are covered by the libFuzzer target.
#include "c09_core.h"

static vf::Evidence* EV;

static bool replay(const vf::Case& c, std::string* why) {
  if (c.has("fuzz_input_hex")) {
    const std::string raw = vf::unhex(c.get("fuzz_input_hex"));
    return c09::fuzz_oracle((const uint8_t*)raw.data(), raw.size(), why, nullptr);
  }
  c09::Expect e;
  e.accept = c.num("expect_accept") != 0;
  e.t = (int64_t)c.num("expect_t"); e.fs = (int64_t)c.num("expect_fs");
  const fr::ZoneEntry* z = fr::zone_by_label(c.get("zone"));
  if (!z) return true;
  return c09::check(vf::unhex(c.get("format_hex")), vf::unhex(c.get("input_hex")), *z, e, why);
}

static void run(const vf::Args& a, vf::Evidence& ev, vf::Reporter& rep) {
  vf::History::enabled() = true;  // failing cases carry the cases that ran just before them (state between calls)
  EV = &ev;
  ev.rule = "rapidcheck, constructive: fields (year: any int64 incl. the limits of the representable range; month/day incl. month "
            "ends and leap days; hour/minute; second 0..60; 0-20 fraction digits; offset none | Z | +-hh[:mm[:ss]]) x a format from "
            "the grammar {%Y|%E4Y|%y, %m %d|%e | %b/%B + %d | %U/%W + %w/%u/%a | %D | %j/%a/%Z extras, %H|%I+%p, %M, %S | %E*S | %E#S "
            "| %S.%E*f | %T | %R, %z|%Ez|%E*z|%:z|%::z, %n %t %%, or %s} x zone (UTC, fixed, shipped zones; civil times inside "
            "gaps/overlaps generated on purpose); input rendered from the fields with variable widths and extra blanks. Accept cases "
            "must return exactly the denoted instant (false iff it does not fit int64); reject cases carry one planted defect (field "
            "just outside its bound, non-existent date, ' x' appended, separator replaced/deleted, %E4Y of 3/5 chars, year 2^63, "
            "offset field 24/60). All accepted results are re-formatted and re-parsed. Non-trivial = a case at a field bound, any "
            "reject case, an instant within 2 days of the int64 limits, a skipped/repeated civil time, :60, > 15 fraction digits.";
  long budget = a.budget(60000, 800000);
  vf::rc_run("C09.constructive", a.stream_seed(1), (int)budget, rep, [&]() {
    c09::Built b = c09::build_case(&a, EV);
    vf::Case c;
    c.set("zone", b.zone->label); c.set("format_hex", vf::hex(b.fmt)); c.set("input_hex", vf::hex(b.input));
    c.set("format_printable", vf::esc(b.fmt)); c.set("input_printable", vf::esc(b.input));
    c.set("expect_accept", b.exp.accept ? 1 : 0); c.set("expect_t", b.exp.t); c.set("expect_fs", b.exp.fs); c.set("construction", b.note);
    vf::CurrentScope cur([&]() { return c; });
    EV->eval();
    EV->cls(b.cls);
    for (auto& t : b.tags) EV->cls(t);
    if (b.nontrivial) EV->nt(vf::mix(vf::fnv(b.fmt), vf::fnv(b.input) ^ vf::fnv(b.zone->label)));
    if (EV->want_sample(b.cls)) EV->sample(b.cls, b.zone->label + " parse('" + vf::esc(b.fmt) + "', '" + vf::esc(b.input) + "') expect " + (b.exp.accept ? "t=" + vf::i64_str(b.exp.t) + " fs=" + vf::i64_str(b.exp.fs) : std::string("false")) + " [" + b.note + "]");
    std::string why;
    if (!c09::check(b.fmt, b.input, *b.zone, b.exp, &why)) { rep.failing(c, why); RC_FAIL(why); }
  });
}

int main(int argc, char** argv) { return vf::main_dispatch(argc, argv, "C09", run, replay); }
