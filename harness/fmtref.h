// fmtref: reference rendering of cctz::format()'s library-defined specifiers,
// written from the documentation in time_zone.h (and strftime(3) for %U %W %u
// %w %e), plus the zone panel and token generators shared by C07/C08/C09.
#pragma once
#include <time.h>
#include "cctz/time_zone.h"
#include "rcutil.h"
#include "refcal.h"

namespace fr {
using vf::i128;

inline cctz::time_point<cctz::seconds> tp(int64_t t) {
  return std::chrono::time_point_cast<cctz::seconds>(std::chrono::system_clock::from_time_t(0)) + cctz::seconds(t);
}
inline int64_t unix_of(const cctz::time_point<cctz::seconds>& p) { return (p - tp(0)).count(); }

// ---- zone panel ----------------------------------------------------------------
struct ZoneEntry { std::string label; cctz::time_zone tz; };
inline std::vector<ZoneEntry>& zones() {
  static std::vector<ZoneEntry> z = [] {
    std::vector<ZoneEntry> v;
    v.push_back({"UTC", cctz::utc_time_zone()});
    for (int off : {-30, 30, -1, 1, 20700 + 30, -(9 * 3600 + 59), 12 * 3600, -12 * 3600, 86399, -86399, 3600, -16200, 86400, -86400})
      v.push_back({"fixed:" + std::to_string(off), cctz::fixed_time_zone(cctz::seconds(off))});
    for (const char* n : {"America/New_York", "Australia/Lord_Howe", "Asia/Kathmandu", "Europe/London", "Pacific/Apia", "Africa/Monrovia",
                          "America/St_Johns", "Asia/Tehran", "Pacific/Chatham", "Europe/Amsterdam", "America/Sao_Paulo", "Asia/Kolkata"}) {
      cctz::time_zone tz;
      if (cctz::load_time_zone(n, &tz)) v.push_back({n, tz});
    }
    return v;
  }();
  return z;
}
inline const ZoneEntry* zone_by_label(const std::string& l) {
  for (auto& z : zones()) if (z.label == l) return &z;
  return nullptr;
}

// ---- field view of an instant ----------------------------------------------------
struct Fields {
  refcal::Civil c; int offset; bool is_dst; std::string abbr;
  int wday;   // 0 = Sunday
  int yday;   // 0-based
};
inline Fields fields_of(const cctz::time_zone::absolute_lookup& al) {
  Fields f;
  f.c = refcal::Civil{(i128)al.cs.year(), al.cs.month(), al.cs.day(), al.cs.hour(), al.cs.minute(), al.cs.second()};
  f.offset = al.offset; f.is_dst = al.is_dst; f.abbr = al.abbr;
  const i128 dn = refcal::days_from_civil(f.c.y, f.c.m, f.c.d);
  f.wday = (refcal::weekday_mon0(dn) + 1) % 7;
  f.yday = refcal::yearday(f.c.y, f.c.m, f.c.d) - 1;
  return f;
}
inline bool year_fits_tm(i128 y) { return y - 1900 >= INT32_MIN && y - 1900 <= INT32_MAX; }
inline std::tm tm_of(const Fields& f) {
  std::tm tm{};
  tm.tm_sec = f.c.ss; tm.tm_min = f.c.mm; tm.tm_hour = f.c.hh; tm.tm_mday = f.c.d; tm.tm_mon = f.c.m - 1;
  tm.tm_year = year_fits_tm(f.c.y) ? (int)(f.c.y - 1900) : (f.c.y < 0 ? INT32_MIN : INT32_MAX);
  tm.tm_wday = f.wday; tm.tm_yday = f.yday; tm.tm_isdst = f.is_dst ? 1 : 0;
  return tm;
}

inline std::string pad(i128 v, int width) {
  bool neg = v < 0;
  std::string s = vf::i128_str(neg ? -v : v);
  while ((int)s.size() < width - (neg ? 1 : 0)) s = "0" + s;
  return (neg ? "-" : "") + s;
}
inline std::string two(int v) { char b[8]; snprintf(b, sizeof b, "%02d", v); return b; }

// numeric UTC offset; mode: 0 "+hhmm", 1 "+hh:mm", 2 "+hh:mm:ss", 3 "+hh[:mm[:ss]]"
inline std::string offset_text(int off, int mode) {
  const int a = off < 0 ? -off : off;
  const int hh = a / 3600, mm = a / 60 % 60, ss = a % 60;
  bool show_ss = mode == 2 || (mode == 3 && ss != 0);
  bool show_mm = mode != 3 || mm != 0 || ss != 0;
  char sign = off < 0 ? '-' : '+';
  // a negative offset that renders as all zeros is shown with '+'
  if (!show_ss && hh == 0 && mm == 0) sign = '+';
  std::string s(1, sign);
  s += two(hh);
  if (show_mm) { if (mode != 0) s += ":"; s += two(mm); }
  if (show_ss) { s += ":"; s += two(ss); }
  return s;
}
inline std::string frac_digits(int64_t fs, int n) {  // n in 0..18
  std::string d = pad(fs, 15);
  return n <= 15 ? d.substr(0, n) : d + std::string(n - 15, '0');
}
inline std::string frac_star(int64_t fs) {
  std::string d = pad(fs, 15);
  while (!d.empty() && d.back() == '0') d.pop_back();
  return d;
}

// ---- tokens -----------------------------------------------------------------------
struct Token {
  enum Kind { LIT, CCTZ, LIBC } kind;
  std::string text;  // as it appears in the format string
};
// renders one library-defined specifier
inline std::string render_cctz(const std::string& spec, const Fields& f, int64_t t, int64_t fs) {
  if (spec == "%%") return "%";
  if (spec == "%Y") return vf::i128_str(f.c.y);
  if (spec == "%m") return two(f.c.m);
  if (spec == "%d") return two(f.c.d);
  if (spec == "%e") { std::string s = two(f.c.d); if (s[0] == '0') s[0] = ' '; return s; }
  if (spec == "%H") return two(f.c.hh);
  if (spec == "%M") return two(f.c.mm);
  if (spec == "%S") return two(f.c.ss);
  if (spec == "%U") return two((f.yday + 7 - f.wday) / 7);
  if (spec == "%W") return two((f.yday + 7 - ((f.wday + 6) % 7)) / 7);
  if (spec == "%u") return std::to_string(f.wday == 0 ? 7 : f.wday);
  if (spec == "%w") return std::to_string(f.wday);
  if (spec == "%z") return offset_text(f.offset, 0);
  if (spec == "%:z" || spec == "%Ez") return offset_text(f.offset, 1);
  if (spec == "%::z" || spec == "%E*z") return offset_text(f.offset, 2);
  if (spec == "%:::z") return offset_text(f.offset, 3);
  if (spec == "%Z") return f.abbr;
  if (spec == "%s") return vf::i64_str(t);
  if (spec == "%ET") return "T";
  if (spec == "%E4Y") return pad(f.c.y, 4);
  if (spec == "%E*S") { std::string fr = frac_star(fs); return two(f.c.ss) + (fr.empty() ? "" : "." + fr); }
  if (spec == "%E*f") { std::string fr = frac_star(fs); return fr.empty() ? "0" : fr; }
  if (spec.size() >= 4 && spec[1] == 'E' && (spec.back() == 'S' || spec.back() == 'f')) {
    long n = strtol(spec.c_str() + 2, nullptr, 10);
    if (n > 18) n = 18;
    std::string fr = frac_digits(fs, (int)n);
    if (spec.back() == 'f') return fr;
    return two(f.c.ss) + (n ? "." + fr : "");
  }
  return "<?" + spec + "?>";
}
inline bool libc_uses_year(const std::string& spec) {
  const char c = spec.back();
  return strchr("cCDFgGxyY+", c) != nullptr;
}
inline std::string render_libc(const std::string& spec, const std::tm& tm) {
  char buf[512];
  size_t n = strftime(buf, sizeof buf, spec.c_str(), &tm);
  return std::string(buf, n);
}
inline std::string render(const std::vector<Token>& toks, const Fields& f, int64_t t, int64_t fs, bool* unspecified) {
  std::string out;
  const std::tm tm = tm_of(f);
  for (auto& k : toks) {
    if (k.kind == Token::LIT) out += k.text;
    else if (k.kind == Token::CCTZ) out += render_cctz(k.text, f, t, fs);
    else {
      if (libc_uses_year(k.text) && !year_fits_tm(f.c.y)) *unspecified = true;  // std::tm cannot hold the year
      out += render_libc(k.text, tm);
    }
  }
  return out;
}
inline std::string join(const std::vector<Token>& toks) { std::string s; for (auto& k : toks) s += k.text; return s; }

// ---- generators ------------------------------------------------------------------------
inline rc::Gen<Token> cctz_token_gen() {
  return rc::gen::exec([]() -> Token {
    int k = *vf::range<int>(0, 27);
    static const char* simple[] = {"%Y", "%m", "%d", "%e", "%H", "%M", "%S", "%U", "%W", "%u", "%w", "%z", "%:z", "%::z", "%:::z", "%Ez", "%E*z", "%Z", "%s", "%ET", "%E4Y", "%E*S", "%E*f", "%%"};
    if (k < 24) return Token{Token::CCTZ, simple[k]};
    int n = *rc::gen::weightedOneOf<int>({{6, vf::range<int>(0, 18)}, {1, rc::gen::element(19, 20, 100, 1024, 15, 16)}});
    return Token{Token::CCTZ, "%E" + std::to_string(n) + (k % 2 ? "S" : "f")};
  });
}
inline rc::Gen<Token> libc_token_gen() {
  return rc::gen::exec([]() -> Token {
    static const char* t[] = {"%a", "%A", "%b", "%B", "%c", "%C", "%D", "%F", "%g", "%G", "%h", "%I", "%j", "%k", "%l", "%n", "%p", "%P", "%r", "%R", "%t", "%T",
                              "%V", "%x", "%X", "%y", "%Ec", "%EC", "%Ex", "%EX", "%Ey", "%EY", "%Od", "%Oe", "%OH", "%OI", "%Om", "%OM", "%OS", "%Ou", "%OU", "%OV", "%Ow", "%OW", "%Oy"};
    return Token{Token::LIBC, t[*vf::index(sizeof t / sizeof *t)]};
  });
}
inline rc::Gen<Token> literal_gen() {
  return rc::gen::exec([]() -> Token {
    static const std::string al = " -:/.,TZabcxyzE*4fSY0123456789+_()[]\t\xc3\xa9";
    int n = *vf::range<int>(1, 6);
    std::string s;
    for (int i = 0; i < n; ++i) s.push_back(al[*vf::index(al.size())]);
    return Token{Token::LIT, s};
  });
}

// anchored instants for the format/parse checks
inline int64_t instant_gen(const cctz::time_zone& tz) {
  int style = *vf::range<int>(0, 9);
  switch (style) {
    case 0: return *rc::gen::element<int64_t>(INT64_MIN, INT64_MAX, INT64_MIN + 1, INT64_MAX - 1, 0, -1, 1);
    case 1: return (*rc::gen::arbitrary<bool>() ? INT64_MAX - *vf::range<int64_t>(0, 2 * 86400) : INT64_MIN + *vf::range<int64_t>(0, 2 * 86400));
    case 2: return *vf::any_i64();
    case 3: {  // around a transition of the zone
      cctz::time_zone::civil_transition tr;
      int64_t t = *vf::range<int64_t>(-4000000000LL, 4000000000LL);
      if (tz.next_transition(tp(t), &tr)) { int64_t T = unix_of(tz.lookup(tr.to).trans); return T + *rc::gen::element<int64_t>(-1, 0, 1, -3600, 3599); }
      return t;
    }
    case 4: {  // year boundaries incl. 4-digit / negative / many-digit years
      i128 y = *rc::gen::element<int64_t>(-1000, -999, -1, 0, 1, 999, 1000, 9999, 10000, 99999, -10000, 1582, 2147485547LL, 2147485548LL, -2147481748LL, -2147481749LL, 100000000000LL, -100000000000LL,
                                             2147481747LL, 2147481748LL, 2147483647LL, 2147483648LL, 2147485000LL, -2147483648LL, -2147483649LL, -2147481000LL, 4294967296LL, 4294969196LL);  // around INT_MAX, INT_MAX+-1900, 2^32
      i128 s = refcal::to_secs(refcal::Civil{y, 1, 1, 0, 0, 0}) + *rc::gen::element<int64_t>(-1, 0, 86399, -86400 * 3, 86400 * 200);
      return refcal::clamp64(s);
    }
    case 5: return *vf::range<int64_t>(-62135596800LL, 253402300799LL);  // years 1..9999
    default: return *vf::range<int64_t>(-4000000000LL, 8000000000LL);
  }
}
inline int64_t femto_gen() {
  return *rc::gen::weightedOneOf<int64_t>({{3, rc::gen::just<int64_t>(0)}, {2, rc::gen::element<int64_t>(1, 999999999999999LL, 500000000000000LL, 100000000000000LL, 10, 1000000, 123456789012345LL)},
                                           {2, rc::gen::map(vf::range<int>(0, 14), [](int k) { int64_t v = 1; for (int i = 0; i < k; ++i) v *= 10; return v; })},
                                           {3, vf::range<int64_t>(0, 999999999999999LL)}});
}

}  // namespace fr
