// zonepool: brings zones to cctz (shipped files, zic-compiled files, in-memory
// synthetic bytes through a custom zone_info_source_factory) next to their
// independent model, and derives anchored probe points.  Includes cctz headers.
#pragma once
#include <thread>
#include <dirent.h>
#include <sys/stat.h>
#include <atomic>
#include <memory>
#include <mutex>
#include "cctz/civil_time.h"
#include "cctz/time_zone.h"
#include "cctz/zone_info_source.h"
#include "time_zone_if.h"
#include "zonemodel.h"

namespace zp {
using vf::i128;

// ---- in-memory zone data source ---------------------------------------------
struct MemStore {
  std::mutex mu;
  std::map<std::string, std::string> data;  // name -> bytes
  std::atomic<long> opens{0};
  static MemStore& get() { static MemStore* s = new MemStore; return *s; }
};
class MemSource : public cctz::ZoneInfoSource {
 public:
  explicit MemSource(std::string b, std::string version = std::string()) : b_(std::move(b)), version_(std::move(version)) {}
  std::string Version() const override { return version_; }
  std::size_t Read(void* ptr, std::size_t size) override {
    size = std::min(size, b_.size() - pos_);
    memcpy(ptr, b_.data() + pos_, size);
    pos_ += size;
    return size;
  }
  int Skip(std::size_t offset) override {
    pos_ += std::min(offset, b_.size() - pos_);
    return 0;
  }
 private:
  std::string b_; size_t pos_ = 0; std::string version_;
};
// a name may carry the data version its source reports: ".../ver=2024a/..."
inline std::string version_in_name(const std::string& name) {
  const size_t p = name.find("/ver=");
  if (p == std::string::npos) return std::string();
  const size_t e = name.find('/', p + 5);
  return name.substr(p + 5, e == std::string::npos ? std::string::npos : e - p - 5);
}
inline std::unique_ptr<cctz::ZoneInfoSource> mem_factory(
    const std::string& name,
    const std::function<std::unique_ptr<cctz::ZoneInfoSource>(const std::string&)>& fallback) {
  if (name.compare(0, 4, "mem:") == 0) {
    MemStore& s = MemStore::get();
    ++s.opens;
    // the harness owns this part of the schedule: a "/slow" name keeps its loader inside the (first) load for a
    // while, so that other threads asking for the same or another name arrive while it is in progress
    if (name.find("/slow") != std::string::npos) std::this_thread::sleep_for(std::chrono::microseconds(400));
    std::lock_guard<std::mutex> l(s.mu);
    auto it = s.data.find(name);
    if (it == s.data.end()) return nullptr;
    return std::unique_ptr<cctz::ZoneInfoSource>(new MemSource(it->second, version_in_name(name)));
  }
  return fallback(name);
}
}  // namespace zp

#ifndef ZP_NO_FACTORY
namespace cctz_extension {
ZoneInfoSourceFactory zone_info_source_factory = zp::mem_factory;
}
#endif

namespace zp {

inline cctz::time_point<cctz::seconds> tp(int64_t t) {
  return std::chrono::time_point_cast<cctz::seconds>(std::chrono::system_clock::from_time_t(0)) + cctz::seconds(t);
}
inline int64_t unix_of(const cctz::time_point<cctz::seconds>& p) { return (p - tp(0)).count(); }
inline refcal::Civil civ(const cctz::civil_second& cs) {
  return refcal::Civil{(i128)cs.year(), cs.month(), cs.day(), cs.hour(), cs.minute(), cs.second()};
}
inline bool cs_fits(const refcal::Civil& c) { return refcal::fits64(c.y); }
inline cctz::civil_second cs_of(const refcal::Civil& c) {
  return cctz::civil_second((int64_t)c.y, c.m, c.d, c.hh, c.mm, c.ss);
}

// A zone as cctz sees it: either through the public API (cached forever by
// name) or through TimeZoneIf::Make (owned, freeable, fresh hint state).
struct Handle {
  bool pub = false;
  cctz::time_zone tz;
  std::unique_ptr<cctz::TimeZoneIf> zif;
  bool ok = false;
  cctz::time_zone::absolute_lookup lookup(int64_t t) const { return pub ? tz.lookup(tp(t)) : zif->BreakTime(tp(t)); }
  cctz::time_zone::civil_lookup lookup(const cctz::civil_second& cs) const { return pub ? tz.lookup(cs) : zif->MakeTime(cs); }
  bool next(int64_t t, cctz::time_zone::civil_transition* tr) const { return pub ? tz.next_transition(tp(t), tr) : zif->NextTransition(tp(t), tr); }
  bool prev(int64_t t, cctz::time_zone::civil_transition* tr) const { return pub ? tz.prev_transition(tp(t), tr) : zif->PrevTransition(tp(t), tr); }
  int64_t convert(const cctz::civil_second& cs) const {
    // cctz::convert(cs, tz) as documented in time_zone.h
    if (pub) return unix_of(cctz::convert(cs, tz));
    const auto cl = zif->MakeTime(cs);
    return unix_of(cl.kind == cctz::time_zone::civil_lookup::SKIPPED ? cl.trans : cl.pre);
  }
};
inline Handle open_public(const std::string& name) {
  Handle h; h.pub = true; h.ok = cctz::load_time_zone(name, &h.tz); return h;
}
inline Handle open_private(const std::string& name) {
  Handle h; h.pub = false; h.zif = cctz::TimeZoneIf::Make(name); h.ok = h.zif != nullptr; return h;
}

struct Zone {
  std::string label;   // "path:/abs/file" or "hex:<bytes>" (self-contained for replay)
  std::string kind;    // shipped | zic | synthetic
  std::string bytes;
  zm::Model model;
  std::string load_name;  // what to hand to cctz
};

inline std::string register_bytes(const std::string& bytes, const std::string& hint = "z") {
  static std::atomic<long> seq{0};
  std::string name = "mem:" + hint + "/" + std::to_string(++seq);
  MemStore& s = MemStore::get();
  std::lock_guard<std::mutex> l(s.mu);
  s.data[name] = bytes;
  return name;
}
inline void unregister(const std::string& name) {
  MemStore& s = MemStore::get();
  std::lock_guard<std::mutex> l(s.mu);
  s.data.erase(name);
}

inline std::string tzdir_path() { const char* d = getenv("TZDIR"); return d ? d : "/repo/testdata/zoneinfo"; }
inline Zone zone_from_file(const std::string& path, const std::string& kind) {
  Zone z; z.kind = kind;
  // shipped zones are labelled relative to TZDIR so that a replay file does not depend on where the tree lives
  const std::string td = tzdir_path() + "/";
  z.label = path.compare(0, td.size(), td) == 0 ? "tzdir:" + path.substr(td.size()) : "path:" + path;
  z.bytes = vf::read_file(path);
  z.model = zm::Model::build(zm::read_tzif(z.bytes));
  z.load_name = path;  // absolute path => opened directly
  return z;
}
inline Zone zone_from_bytes(const std::string& bytes, const std::string& kind) {
  Zone z; z.kind = kind; z.label = "hex:" + vf::hex(bytes);
  z.bytes = bytes;
  z.model = zm::Model::build(zm::read_tzif(bytes));
  z.load_name = register_bytes(bytes, kind);
  return z;
}
inline Zone zone_from_label(const std::string& label) {
  if (label.compare(0, 6, "tzdir:") == 0) return zone_from_file(tzdir_path() + "/" + label.substr(6), "replay");
  if (label.compare(0, 5, "path:") == 0) return zone_from_file(label.substr(5), "replay");
  return zone_from_bytes(vf::unhex(label.substr(4)), "replay");
}

inline void list_files(const std::string& dir, std::vector<std::string>* out) {
  DIR* d = opendir(dir.c_str());
  if (!d) return;
  std::vector<std::string> names;
  while (dirent* e = readdir(d)) { std::string n = e->d_name; if (n != "." && n != "..") names.push_back(n); }
  closedir(d);
  std::sort(names.begin(), names.end());
  for (auto& n : names) {
    std::string p = dir + "/" + n;
    struct stat st;
    if (stat(p.c_str(), &st) != 0) continue;
    if (S_ISDIR(st.st_mode)) list_files(p, out);
    else if (S_ISREG(st.st_mode)) {
      FILE* f = fopen(p.c_str(), "rb");
      char m[4] = {0};
      if (f) { size_t n = fread(m, 1, 4, f); fclose(f); if (n == 4 && memcmp(m, "TZif", 4) == 0) out->push_back(p); }
    }
  }
}
inline std::vector<std::string> shipped_files() {
  std::vector<std::string> v;
  const char* d = getenv("TZDIR");
  list_files(d ? d : "/repo/testdata/zoneinfo", &v);
  return v;
}

// ---- anchored probe points -------------------------------------------------------
const int64_t kSecs400y = 146097LL * 86400;

struct Anchors {
  std::vector<int64_t> instants;  // structural anchors (transition instants etc.), clamped to int64
  std::vector<std::string> tags;  // parallel: class of each anchor
};
inline void add_anchor(Anchors* a, i128 t, const char* tag) {
  if (!refcal::fits64(t)) return;
  a->instants.push_back((int64_t)t); a->tags.push_back(tag);
}
// full = every rule year of the 403-year table + all shifts; otherwise a thinned set
inline Anchors anchors_for(const zm::Model& m, bool full) {
  Anchors a;
  const auto& tr = m.f.trans;
  for (size_t i = 0; i < tr.size(); ++i)
    add_anchor(&a, tr[i].t, i == 0 ? "first_recorded" : i + 1 == tr.size() ? "last_recorded" : "recorded");
  for (int64_t t : std::initializer_list<int64_t>{0, INT64_MIN, INT64_MAX, -(1LL << 59), (1LL << 59), -(1LL << 31), (1LL << 31) - 1,
                                                  2147483647, 4102444800LL})
    add_anchor(&a, t, "sentinel_or_limit");
  if (!tr.empty()) {
    const i128 last = tr.back().t;
    // far beyond a rule-less history, and 400-year multiples from the last entry
    for (i128 k : {(i128)1, (i128)2, (i128)25, (i128)100000}) add_anchor(&a, last + k * kSecs400y, "last_plus_400y_multiple");
    const i128 kmax = (refcal::kI64Max - last) / kSecs400y;
    add_anchor(&a, last + kmax * kSecs400y, "last_plus_max_400y_multiple");
    add_anchor(&a, last + (kmax - 1) * kSecs400y, "last_plus_max_400y_multiple");
  }
  if (m.has_rule && !tr.empty()) {
    const i128 last = tr.back().t;
    const zm::LT lt = m.lt_of(tr.back().type);
    const i128 y0 = refcal::from_secs(last + lt.utoff).y;  // local year of the last recorded transition
    auto year_anchors = [&](i128 y, const char* tag) {
      i128 s, e; m.rule_transitions(y, &s, &e);
      add_anchor(&a, s, tag); add_anchor(&a, e, tag);
    };
    for (int k = -1; k <= 403; ++k) {
      const bool edge = k <= 2 || k >= 398;
      if (!full && !edge && (k % 37) != 5) continue;
      year_anchors(y0 + k, k <= 1 ? "rule_seam_year" : k >= 399 ? "rule_table_final_years" : "rule_year");
    }
    // 400-year images of seam/final years, up to the last representable one
    const i128 ymax = refcal::from_secs(refcal::kI64Max).y;
    for (i128 mult : {(i128)1, (i128)2, (i128)3, (i128)1000, (ymax - y0) / 400 - 1, (ymax - y0) / 400}) {
      for (int k : {0, 1, 200, 399, 400, 401, 402}) {
        const i128 y = y0 + k + mult * 400;
        if (y > ymax) continue;
        year_anchors(y, "rule_400y_image");
      }
    }
    year_anchors(ymax, "rule_last_representable_year");
    year_anchors(ymax - 1, "rule_last_representable_year");
  }
  return a;
}
inline const std::vector<int64_t>& deltas_for(const zm::Model& m) {
  static thread_local std::vector<int64_t> d;
  d = {0, -1, 1, -2, 2, -86400, 86400, -3600, 3600, 1800};
  for (int32_t o : m.offsets()) { d.push_back(o); d.push_back(-(int64_t)o); d.push_back((int64_t)o + 1); d.push_back(-(int64_t)o - 1); }
  std::sort(d.begin(), d.end()); d.erase(std::unique(d.begin(), d.end()), d.end());
  return d;
}

}  // namespace zp
