// C02: civil -> instant conversion: UNIQUE / SKIPPED / REPEATED and pre/trans/post.
// Oracle: zonemodel::civil_to_instants (brute force over the offsets in force +
// responsible-change analysis), clamped to int64.
#include "zoneoracle.h"

using vf::i128;
static vf::Evidence*& EV = zo::EV;
static const vf::Args*& ARGS = zo::ARGS;
using zo::check_civil;

// known finding R8 (crowded overlap): zic-compiled zones may contain a table entry closer to a change than the change's size.
// Such civil times are recognised by the model as inconsistent and counted as unspecified (see check_civil).

static bool check_zone(const zp::Zone& z, zp::Handle& h, bool in_rc, bool full, vf::Case* fc, std::string* why) {
  fc->set("sweep", full ? "full" : "thin");  // lets replay re-create the call history of the sweep
  if (!h.ok) return true;  // the load clause belongs to C01
  const zm::Model& m = z.model;
  const zp::Anchors an = zp::anchors_for(m, full);
  const uint64_t zh = vf::fnv(z.bytes);
  i128 cur = 0;
  vf::CurrentScope scope([&]() { vf::Case c; c.set("zone", z.label); c.set("csecs", cur); return c; });
  auto probe = [&](i128 csecs, bool nontriv, const std::string& tag) -> bool {
    cur = csecs;
    EV->eval();
    std::string cls;
    if (!check_civil(z, h, csecs, why, &cls)) { fc->set("csecs", csecs); fc->set("civil", refcal::str(refcal::from_secs(csecs))); fc->set("anchor", tag); return false; }
    if (nontriv || cls == "saturated") EV->nt(vf::mix(zh, (uint64_t)(csecs ^ (csecs >> 64))));
    EV->cls("answer_" + cls);
    if (EV->want_sample(tag + "_" + cls)) EV->sample(tag + "_" + cls, z.kind + " zone (" + zc::zone_class(m) + ") civil " + refcal::str(refcal::from_secs(csecs)) + " -> " + cls);
    return true;
  };
  for (const zo::CivilPoint& pt : zo::civil_points(m, an))
    if (!probe(pt.csecs, pt.nontrivial, zo::point_tag(an, pt.tag))) return false;
  if (in_rc) {
    int n = *vf::range<int>(4, 12);
    for (int k = 0; k < n; ++k) {
      i128 x;
      if (*vf::range<int>(0, 2) == 0 || an.instants.empty()) x = (i128)*vf::any_i64() + *vf::range<int64_t>(-90000, 90000);
      else x = (i128)an.instants[*vf::index(an.instants.size())] + *vf::range<int64_t>(-200000, 200000);
      if (!probe(x, false, "generated")) return false;
    }
  }
  return true;
}

static bool replay(const vf::Case& c, std::string* why) {
  vf::Evidence ev; EV = &ev;
  zp::Zone z = zp::zone_from_label(c.get("zone"));
  if (!z.model.in_domain()) return true;
  zp::Handle h = zp::open_public(z.load_name);
  if (!h.ok) return true;
  if (c.has("csecs") && !check_civil(z, h, c.num("csecs"), why)) return false;
  if (c.has("csecs") && !c.has("sweep")) return true;
  // the single probe passes in a fresh process: re-run the whole deterministic sweep (history-dependent failures)
  vf::Case fc;
  return check_zone(z, h, false, c.get("sweep", "full") == "full", &fc, why);
}

static void run(const vf::Args& a, vf::Evidence& ev, vf::Reporter& rep) {
  EV = &ev; ARGS = &a;
  ev.rule = "zones as in C01 (shipped sweep, zic-compiled, synthetic W). civil seconds: for every table entry (recorded, "
            "rule-generated in each of the 403 table years, 400-year images up to the last representable year) the "
            "gap/overlap interval: every second when <= 90 s long, else both edges +-2 s, the middle and a stride; one "
            "day before/after; civil_second::min()/max() +- k; generated civil times. Non-trivial = inside or within "
            "2 s of a gap/overlap, outside the recorded range, or saturating; distinct by (zone bytes, civil second).";
  zc::Ctx c{&a, &ev, &rep};
  zc::ZoneProp p;
  p.check_zone = check_zone;
  zc::run_all(c, p, 300, 5000);
}

int main(int argc, char** argv) { return vf::main_dispatch(argc, argv, "C02", run, replay); }
