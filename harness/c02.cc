// C02: civil -> instant conversion: UNIQUE / SKIPPED / REPEATED and pre/trans/post.
// Oracle: zonemodel::civil_to_instants (brute force over the offsets in force +
// responsible-change analysis), clamped to int64.
#include "zonecheck.h"

using vf::i128;
static vf::Evidence* EV;
static const vf::Args* ARGS;

static const char* kind_name(int k) { return k == 0 ? "UNIQUE" : k == 1 ? "SKIPPED" : "REPEATED"; }

// csecs: the civil second expressed as seconds of the same fields read in UTC
static bool check_civil(const zp::Zone& z, const zp::Handle& h, i128 csecs, std::string* why, std::string* cls = nullptr) {
  const zm::Model& m = z.model;
  const refcal::Civil c = refcal::from_secs(csecs);
  if (!zp::cs_fits(c)) return true;
  const cctz::civil_second cs = zp::cs_of(c);
  const zm::Model::CivilAnswer a = m.civil_to_instants(csecs);
  const auto cl = h.lookup(cs);  // always executed: totality / UB is part of the property family
  if (a.crowded && a.kind != 0 && ARGS && ARGS->excluded("crowded_change")) {
    EV->excl("crowded_change"); if (cls) *cls = "excluded"; return true;   // known finding R8
  }
  if (!a.consistent) { EV->unspec("civil_time_near_crowded_changes(model_inconsistent)"); if (cls) *cls = "unspecified"; return true; }
  if (m.pre_first_unspecified && !m.f.trans.empty() && std::min(a.pre, a.post) <= (i128)m.f.trans.front().t) {
    EV->unspec("before_first_transition_with_DST_type0_referenced"); if (cls) *cls = "unspecified"; return true;
  }
  const int64_t epre = refcal::clamp64(a.pre), etr = refcal::clamp64(a.trans), epost = refcal::clamp64(a.post);
  const int64_t gpre = zp::unix_of(cl.pre), gtr = zp::unix_of(cl.trans), gpost = zp::unix_of(cl.post);
  const bool all_sat = (!refcal::fits64(a.pre) && !refcal::fits64(a.trans) && !refcal::fits64(a.post));
  const int gk = cl.kind == cctz::time_zone::civil_lookup::UNIQUE ? 0 : cl.kind == cctz::time_zone::civil_lookup::SKIPPED ? 1 : 2;
  if (cls) *cls = all_sat ? "saturated" : kind_name(a.kind);
  bool bad = gpre != epre || gtr != etr || gpost != epost;
  if (!all_sat && gk != a.kind) bad = true;  // no representable instant is involved when everything saturates
  if (bad) {
    *why = "lookup(" + refcal::str(c) + "): got " + kind_name(gk) + " pre=" + vf::i64_str(gpre) + " trans=" + vf::i64_str(gtr) +
           " post=" + vf::i64_str(gpost) + "; data says " + kind_name(a.kind) + " pre=" + vf::i64_str(epre) + " trans=" +
           vf::i64_str(etr) + " post=" + vf::i64_str(epost) + " (" + std::to_string(a.solutions) + " instant(s) display it)";
    return false;
  }
  return true;
}

// known finding R8 (crowded overlap): zic-compiled zones may contain a table entry closer to a change than the change's size.
// Such civil times are recognised by the model as inconsistent and counted as unspecified (see check_civil).

static bool check_zone(const zp::Zone& z, zp::Handle& h, bool in_rc, bool full, vf::Case* fc, std::string* why) {
  fc->set("sweep", full ? "full" : "thin");  // lets replay re-create the call history of the sweep
  if (!h.ok) return true;  // the load clause belongs to C01
  const zm::Model& m = z.model;
  const zp::Anchors an = zp::anchors_for(m, full);
  const uint64_t zh = vf::fnv(z.bytes);
  i128 cur = 0;
  vf::CurrentScope scope([&]() { vf::Case c; c.set("zone", z.label); c.set("csecs", cur); return c; });
  auto probe = [&](i128 csecs, bool nontriv, const std::string& tag) -> bool {
    cur = csecs;
    EV->eval();
    std::string cls;
    if (!check_civil(z, h, csecs, why, &cls)) { fc->set("csecs", csecs); fc->set("civil", refcal::str(refcal::from_secs(csecs))); fc->set("anchor", tag); return false; }
    if (nontriv || cls == "saturated") EV->nt(vf::mix(zh, (uint64_t)(csecs ^ (csecs >> 64))));
    EV->cls("answer_" + cls);
    if (EV->want_sample(tag + "_" + cls)) EV->sample(tag + "_" + cls, z.kind + " zone (" + zc::zone_class(m) + ") civil " + refcal::str(refcal::from_secs(csecs)) + " -> " + cls);
    return true;
  };
  for (size_t i = 0; i < an.instants.size(); ++i) {
    const i128 A = an.instants[i];
    const std::vector<zm::Change> chs = m.changes(A, A);
    bool outside = m.f.trans.empty() || A < m.f.trans.front().t || A >= m.f.trans.back().t;
    if (chs.empty()) {
      const i128 base = A + m.type_at(A).utoff;
      for (i128 d : {(i128)0, (i128)-1, (i128)1, (i128)-86400, (i128)86400, (i128)3600, (i128)-3600})
        if (!probe(base + d, outside, an.tags[i])) return false;
      continue;
    }
    for (auto& ch : chs) {
      const i128 lo = ch.t + std::min(ch.before.utoff, ch.after.utoff), hi = ch.t + std::max(ch.before.utoff, ch.after.utoff);
      std::vector<i128> pts;
      for (int k = -2; k <= 2; ++k) { pts.push_back(lo + k); pts.push_back(hi + k); }
      pts.push_back(lo + (hi - lo) / 2);
      if (hi - lo <= 90) for (i128 x = lo; x < hi; ++x) pts.push_back(x);
      else for (int k = 3; k < 40; k += 7) { pts.push_back(lo + k * 61); pts.push_back(hi - k * 61); }
      pts.push_back(lo - 86400); pts.push_back(hi + 86400);
      for (i128 x : pts) if (!probe(x, true, an.tags[i])) return false;
    }
    EV->cls("anchor_" + an.tags[i]);
  }
  // the ends of the civil range
  const i128 cmin = refcal::to_secs(refcal::Civil{refcal::kI64Min, 1, 1, 0, 0, 0});
  const i128 cmax = refcal::to_secs(refcal::Civil{refcal::kI64Max, 12, 31, 23, 59, 59});
  for (i128 k : {(i128)0, (i128)1, (i128)59, (i128)86400, (i128)86400 * 366}) {
    if (!probe(cmin + k, true, "civil_min")) return false;
    if (!probe(cmax - k, true, "civil_max")) return false;
  }
  if (in_rc) {
    int n = *vf::range<int>(4, 12);
    for (int k = 0; k < n; ++k) {
      i128 x;
      if (*vf::range<int>(0, 2) == 0 || an.instants.empty()) x = (i128)*vf::any_i64() + *vf::range<int64_t>(-90000, 90000);
      else x = (i128)an.instants[*vf::index(an.instants.size())] + *vf::range<int64_t>(-200000, 200000);
      if (!probe(x, false, "generated")) return false;
    }
  }
  return true;
}

static bool replay(const vf::Case& c, std::string* why) {
  vf::Evidence ev; EV = &ev;
  zp::Zone z = zp::zone_from_label(c.get("zone"));
  if (!z.model.in_domain()) return true;
  zp::Handle h = zp::open_public(z.load_name);
  if (!h.ok) return true;
  if (c.has("csecs") && !check_civil(z, h, c.num("csecs"), why)) return false;
  if (c.has("csecs") && !c.has("sweep")) return true;
  // the single probe passes in a fresh process: re-run the whole deterministic sweep (history-dependent failures)
  vf::Case fc;
  return check_zone(z, h, false, c.get("sweep", "full") == "full", &fc, why);
}

static void run(const vf::Args& a, vf::Evidence& ev, vf::Reporter& rep) {
  EV = &ev; ARGS = &a;
  ev.rule = "zones as in C01 (shipped sweep, zic-compiled, synthetic W). civil seconds: for every table entry (recorded, "
            "rule-generated in each of the 403 table years, 400-year images up to the last representable year) the "
            "gap/overlap interval: every second when <= 90 s long, else both edges +-2 s, the middle and a stride; one "
            "day before/after; civil_second::min()/max() +- k; generated civil times. Non-trivial = inside or within "
            "2 s of a gap/overlap, outside the recorded range, or saturating; distinct by (zone bytes, civil second).";
  zc::Ctx c{&a, &ev, &rep};
  zc::ZoneProp p;
  p.check_zone = check_zone;
  zc::run_all(c, p, 300, 5000);
}

int main(int argc, char** argv) { return vf::main_dispatch(argc, argv, "C02", run, replay); }
