// zonegen: the domain "W" of well-formed synthetic zones (DESIGN.md sec. 3.3b):
// a rapidcheck generator of ZoneSpec values and a TZif writer (versions 1-4,
// fat/slim, with/without footer, big-bang entry, no-op transitions, ...).
// Includes no cctz header.
#pragma once
#include <map>
#include "rcutil.h"
#include "zonemodel.h"

namespace zg {
using vf::i128;

struct TypeSpec { int32_t utoff; bool isdst; std::string abbr; };
struct ZoneSpec {
  int version = 2;
  bool fat = false;
  bool indicators = false;
  std::vector<TypeSpec> types;
  std::vector<zm::Trans> trans;
  bool has_footer = false;
  std::string footer;
  std::string note;  // human-readable class summary
};

inline void put32(std::string& s, uint32_t v) { for (int i = 3; i >= 0; --i) s.push_back((char)(v >> (8 * i))); }
inline void put64(std::string& s, uint64_t v) { for (int i = 7; i >= 0; --i) s.push_back((char)(v >> (8 * i))); }

inline std::string block(const ZoneSpec& z, int version_byte, bool wide, bool minimal) {
  std::string chars;
  std::vector<int> abbr_idx;
  std::vector<TypeSpec> types = z.types;
  std::vector<zm::Trans> trans;
  if (minimal) {  // what zic -b slim writes in the 32-bit block
    types = {TypeSpec{0, false, ""}};
  } else {
    for (auto& t : z.trans) if (wide || (t.t >= INT32_MIN && t.t <= INT32_MAX)) trans.push_back(t);
  }
  for (auto& t : types) {
    // share storage when the abbreviation already occurs as a NUL-terminated suffix
    std::string needle = t.abbr + std::string(1, '\0');
    size_t pos = chars.find(needle);
    if (pos == std::string::npos) { pos = chars.size(); chars += needle; }
    abbr_idx.push_back((int)pos);
  }
  std::string s = "TZif";
  s.push_back(version_byte == 1 ? '\0' : (char)('0' + version_byte));
  s.append(15, '\0');
  const uint32_t ind = (z.indicators && !minimal) ? (uint32_t)types.size() : 0;
  put32(s, ind); put32(s, ind); put32(s, 0);
  put32(s, (uint32_t)trans.size()); put32(s, (uint32_t)types.size()); put32(s, (uint32_t)chars.size());
  for (auto& t : trans) { if (wide) put64(s, (uint64_t)t.t); else put32(s, (uint32_t)(int32_t)t.t); }
  for (auto& t : trans) s.push_back((char)t.type);
  for (size_t i = 0; i < types.size(); ++i) {
    put32(s, (uint32_t)types[i].utoff);
    s.push_back(types[i].isdst ? 1 : 0);
    s.push_back((char)abbr_idx[i]);
  }
  s += chars;
  for (uint32_t i = 0; i < ind; ++i) s.push_back((char)(i % 2));  // isstd
  for (uint32_t i = 0; i < ind; ++i) s.push_back((char)0);        // isut
  return s;
}

inline std::string write_tzif(const ZoneSpec& z) {
  if (z.version == 1) return block(z, 1, false, false);
  std::string s = block(z, z.version, false, !z.fat);
  s += block(z, z.version, true, false);
  s.push_back('\n');
  if (z.has_footer) s += z.footer;
  s.push_back('\n');
  return s;
}

// ---- footer text -----------------------------------------------------------
inline std::string fmt_hms(int32_t v, bool always_sign = false) {
  std::string s;
  if (v < 0) { s = "-"; v = -v; } else if (always_sign) s = "+";
  char b[32];
  int h = v / 3600, m = v / 60 % 60, sec = v % 60;
  if (sec) snprintf(b, sizeof b, "%d:%02d:%02d", h, m, sec);
  else if (m) snprintf(b, sizeof b, "%d:%02d", h, m);
  else snprintf(b, sizeof b, "%d", h);
  return s + b;
}
inline std::string quote_abbr(const std::string& a) {
  bool plain = a.size() >= 3;
  for (char c : a) if (!((c >= 'A' && c <= 'Z') || (c >= 'a' && c <= 'z'))) plain = false;
  return plain ? a : "<" + a + ">";
}
inline std::string date_text(const px::Date& d, bool force_time) {
  std::string s;
  char b[32];
  if (d.kind == px::Date::M) { snprintf(b, sizeof b, "M%d.%d.%d", d.month, d.week, d.wday); s = b; }
  else if (d.kind == px::Date::J) { snprintf(b, sizeof b, "J%d", d.day); s = b; }
  else { snprintf(b, sizeof b, "%d", d.day); s = b; }
  if (d.time != 7200 || force_time) s += "/" + fmt_hms(d.time);
  return s;
}
inline std::string posix_text(const px::Posix& p, bool explicit_dst_off, bool force_time) {
  std::string s = quote_abbr(p.std_abbr) + fmt_hms(-p.std_off);
  if (!p.has_dst) return s;
  s += quote_abbr(p.dst_abbr);
  if (explicit_dst_off || p.dst_off != p.std_off + 3600) s += fmt_hms(-p.dst_off);
  s += "," + date_text(p.start, force_time) + "," + date_text(p.end, force_time);
  return s;
}

// ---- generators --------------------------------------------------------------
inline rc::Gen<std::string> abbr_gen() {
  return rc::gen::exec([]() -> std::string {
    int style = *vf::range<int>(0, 3);
    if (style == 0) {  // numeric, as in modern tzdata
      int h = *vf::range<int>(0, 14), m = *rc::gen::element(0, 0, 0, 30, 45);
      char b[16];
      if (m) snprintf(b, sizeof b, "%c%02d%02d", *rc::gen::element('+', '-'), h, m);
      else snprintf(b, sizeof b, "%c%02d", *rc::gen::element('+', '-'), h);
      return b;
    }
    int len = *vf::range<int>(3, 6);
    std::string s;
    static const char* al = "ABCDEFGHIJKLMNOPQRSTUVWXYZabcdefghijklmnopqrstuvwxyz";
    static const char* mixed = "ABCDEFGHIJKLMNOPQRSTUVWXYZ0123456789+-";
    for (int i = 0; i < len; ++i) s.push_back(style == 1 ? mixed[*vf::index(38)] : al[*vf::index(style == 2 ? 26 : 52)]);
    return s;
  });
}
inline rc::Gen<int32_t> utoff_gen() {
  return rc::gen::exec([]() -> int32_t {
    int style = *vf::range<int>(0, 9);
    if (style <= 4) return *vf::range<int>(-12, 14) * 3600;
    if (style == 5) return *vf::range<int>(-12, 14) * 3600 + *rc::gen::element(1800, 2700, 900, -1800);
    if (style == 6) return *vf::range<int>(-86399, 86399);                    // anything the format allows
    if (style == 7) return *rc::gen::element(86399, -86399, 86340, -86340, 50400, -43200, 1, -1, 30, -30);
    return *vf::range<int>(-50000, 50000) / 1 * 1;                             // sub-minute LMT-like
  });
}

// approximate day-of-year (0-based) -> a date of the requested form containing it
inline px::Date date_for_doy(int kind, int doy) {
  px::Date d;
  static const int cum[13] = {0, 31, 59, 90, 120, 151, 181, 212, 243, 273, 304, 334, 365};
  doy = ((doy % 365) + 365) % 365;
  if (kind == 0) {  // M
    int m = 1; while (m < 12 && doy >= cum[m]) ++m;
    int dom = doy - cum[m - 1];  // 0-based
    d.kind = px::Date::M; d.month = m; d.week = std::min(5, dom / 7 + 1); d.wday = doy % 7;
  } else if (kind == 1) { d.kind = px::Date::J; d.day = doy + 1; }
  else { d.kind = px::Date::N; d.day = doy; }
  return d;
}
inline rc::Gen<int32_t> rule_time_gen() {
  return rc::gen::exec([]() -> int32_t {
    int style = *vf::range<int>(0, 9);
    if (style <= 2) return 7200;
    if (style == 3) return *rc::gen::element(0, 3600, 10800, 14400, 86400, 82800);
    if (style == 4) return *rc::gen::element(-3600, -7200, -86400, 90000, 93600, 100800);  // negative and > 24h
    if (style == 5) return *rc::gen::element(167 * 3600, -167 * 3600, 167 * 3600 + 3599, -(167 * 3600 + 3599));
    if (style == 6) return *vf::range<int>(-167, 167) * 3600;
    if (style == 7) return *vf::range<int>(0, 47) * 1800 + *rc::gen::element(0, 0, 1, 59, 60, 61);
    return *vf::range<int>(-604799, 604799);
  });
}

struct FooterPlan { int kind; px::Posix px; };  // kind 0 none, 1 std-only, 2 all-year dst, 3 rule

// The ZoneSpec generator.  `lo_year`/`hi_year` bound where the history sits.
inline rc::Gen<ZoneSpec> zone_gen() {
  return rc::gen::exec([]() -> ZoneSpec {
    ZoneSpec z;
    z.version = *rc::gen::weightedElement<int>({{1, 1}, {5, 2}, {2, 3}, {1, 4}});
    z.fat = *rc::gen::arbitrary<bool>();
    z.indicators = *vf::range<int>(0, 3) == 0;
    int fk = z.version == 1 ? 0 : *rc::gen::weightedElement<int>({{2, 0}, {2, 1}, {1, 2}, {9, 3}});
    // --- type 0: the pre-first type
    TypeSpec t0{*utoff_gen(), false, "LMT"};
    if (*vf::range<int>(0, 3) != 0) t0.utoff = *vf::range<int>(-50000, 50000);
    if (*vf::range<int>(0, 9) == 0) t0.isdst = true;  // unreferenced DST type 0 (W4)
    // Old-layout files (pre-2018 zic): type 0 is a DST type that transitions DO refer to.  What applies before the first
    // transition is then outside the property (counted as unspecified by the model-based oracles), but every
    // relation that involves cctz alone (round trip, order, from/to vs lookup, chain symmetry) still has to hold.
    const bool legacy_type0 = *vf::range<int>(0, 11) == 0;
    if (legacy_type0) t0.isdst = true;
    z.types.push_back(t0);
    auto type_index = [&](const TypeSpec& t) -> int {
      for (size_t i = 0; i < z.types.size(); ++i)
        if (z.types[i].utoff == t.utoff && z.types[i].isdst == t.isdst && z.types[i].abbr == t.abbr) {
          if (i == 0 && z.types[0].isdst && !legacy_type0) continue;  // keep a DST type 0 unreferenced
          return (int)i;
        }
      z.types.push_back(t);
      return (int)z.types.size() - 1;
    };
    // --- rule (if any)
    px::Posix P;
    if (fk == 3 || fk == 2) {
      P.std_abbr = *abbr_gen(); P.dst_abbr = *abbr_gen();
      if (P.dst_abbr == P.std_abbr) P.dst_abbr += "D";
      P.std_off = *rc::gen::weightedOneOf<int32_t>({{6, rc::gen::map(vf::range<int>(-12, 14), [](int h) { return (int32_t)h * 3600; })},
                                                    {2, rc::gen::map(vf::range<int>(-47, 56), [](int q) { return (int32_t)q * 900; })},
                                                    {1, vf::range<int32_t>(-86399 + 7200, 86399 - 7200)}});
      int32_t save = *rc::gen::weightedElement<int32_t>({{7, 3600}, {1, 1800}, {1, 7200}, {1, -3600}, {1, 1200}});
      P.dst_off = P.std_off + save;
      P.has_dst = true;
      if (fk == 2) {
        P.start.kind = px::Date::N; P.start.day = 0; P.start.time = 0;
        P.end.kind = px::Date::J; P.end.day = 365; P.end.time = 86400 + save;
      } else {
        int ds = *rc::gen::weightedOneOf<int>({{8, vf::range<int>(0, 364)}, {2, rc::gen::element(0, 1, 58, 59, 60, 363, 364)}});
        int dd = *vf::range<int>(40, 325);
        int k1 = *rc::gen::weightedElement<int>({{6, 0}, {2, 1}, {2, 2}}), k2 = *rc::gen::weightedElement<int>({{6, 0}, {2, 1}, {2, 2}});
        // half of the time the special day (1 Jan, 31 Dec, 28/29 Feb, 1 Mar) belongs to the END of DST instead
        const bool special_is_end = *vf::range<int>(0, 1) == 1;
        if (special_is_end) ds = ((ds - dd) % 365 + 365) % 365;
        P.start = date_for_doy(k1, ds); P.end = date_for_doy(k2, ds + dd);
        // "last week" forms: only where the day really lies in the last 7 days of its month
        // (week 5 moves the date by at most 6 days, well inside the 40-day separation)
        if (P.start.kind == px::Date::M && P.start.week == 4 && *vf::range<int>(0, 1)) P.start.week = 5;
        if (P.end.kind == px::Date::M && P.end.week == 4 && *vf::range<int>(0, 1)) P.end.week = 5;
        P.start.time = *rule_time_gen(); P.end.time = *rule_time_gen();
        if (*vf::range<int>(0, 5) == 0) {  // small non-negative / negative times right at midnight (year-boundary spills)
          px::Date& d = *vf::range<int>(0, 1) ? P.start : P.end;
          d.time = *rc::gen::element<int32_t>(0, 1, 59, 1800, 3599, 3600, -1, -1800, -3600, 86399, 86400, 86401);
        }
        if (*vf::range<int>(0, 24) == 0) {
          // a yearly change within about an hour of time_point::max() (292277026596-12-04T15:30:07Z): the gap/overlap straddles the limit
          px::Date& d = *vf::range<int>(0, 1) ? P.start : P.end;
          px::Date& other = (&d == &P.start) ? P.end : P.start;
          d.kind = *vf::range<int>(0, 1) ? px::Date::J : px::Date::N;
          d.day = d.kind == px::Date::J ? 338 : 338;  // 4 December (the year of max() is a leap year: J338 = Dec 4, n 338 = Dec 4)
          const int32_t local = (&d == &P.start) ? P.std_off : P.dst_off;
          d.time = 15 * 3600 + 30 * 60 + 7 + local + *rc::gen::element<int32_t>(0, 1, -1, 60, -60, 1800, -1800, 3599, -3599, 3600, -3600);
          if (d.time > 167 * 3600) d.time = 167 * 3600; if (d.time < -167 * 3600) d.time = -167 * 3600;
          other = date_for_doy(*vf::range<int>(0, 2), *vf::range<int>(100, 250));
        }
      }
    }
    // --- history
    int nhist = *rc::gen::weightedElement<int>({{1, 0}, {2, 1}, {3, 3}, {3, 8}, {1, 25}});
    if (nhist > 1) nhist = *vf::range<int>(1, nhist);
    // where the history starts (seconds): 1800s .. 2100s, occasionally far away
    static const int64_t Y = 31556952;
    int64_t t = *rc::gen::weightedOneOf<int64_t>({
        {4, rc::gen::map(vf::range<int64_t>(-170, 60), [](int64_t y) { return y * Y; })},
        {1, rc::gen::map(vf::range<int64_t>(-600, -270), [](int64_t y) { return y * Y; })},   // ends before 1700
        {1, rc::gen::map(vf::range<int64_t>(135, 400), [](int64_t y) { return y * Y; })},    // starts after 2100
        {1, rc::gen::element<int64_t>(-(1LL << 31), -(1LL << 31) + 1, (1LL << 31) - 1, 1LL << 31, 0, -1)}});
    t += *vf::range<int64_t>(0, Y);
    if (z.version == 1) { if (t < INT32_MIN) t = INT32_MIN + *vf::range<int>(0, 1000000); if (t > INT32_MAX / 2) t = *vf::range<int>(-1000000000, 1000000000); }
    int prev_type = 0; int32_t prev_delta = 0;
    for (int i = 0; i < nhist; ++i) {
      TypeSpec nt;
      int how = *vf::range<int>(0, 9);
      bool twin = false;
      if (how == 0 && i > 0) { nt = z.types[prev_type]; twin = *vf::range<int>(0, 1) == 1; }  // no-op: same type again, or its twin
      else if (how == 1 && legacy_type0 && i > 0 && prev_type != 0) nt = z.types[0];
      else if (how == 1 && z.types.size() > 1) nt = z.types[1 + *vf::index(z.types.size() - 1)];
      else if (how == 2 && i > 0) { nt = z.types[prev_type]; nt.isdst = !nt.isdst; }                 // isdst-only change
      else if (how == 3 && i > 0) {                                                                  // abbreviation-only change
        nt = z.types[prev_type];
        const std::string old = nt.abbr;
        switch (*vf::range<int>(0, 5)) {  // half of them to a *related* name: extended, truncated, same tail, same head
          case 0: if (old.size() < 6) { nt.abbr = old + *rc::gen::element<std::string>("X", "0", "D", "00"); break; }  // fallthrough
          case 1: if (old.size() > 3) { nt.abbr = old.substr(0, old.size() - 1); break; }                               // fallthrough
          case 2: nt.abbr = (old.size() < 6 ? std::string("A") : std::string()) + old.substr(old.size() < 6 ? 0 : 1); if (nt.abbr == old) nt.abbr[0] = 'B'; break;
          default: nt.abbr = *abbr_gen(); break;
        }
        if (nt.abbr.size() > 6) nt.abbr.resize(6);
        if (nt.abbr == old) nt.abbr = *abbr_gen();
      }
      else { nt = TypeSpec{*utoff_gen(), *vf::range<int>(0, 2) == 0, *abbr_gen()}; }
      if (how >= 4 && i > 0 && *vf::range<int>(0, 1)) {  // typical DST flip of +-1h / 30 min around the previous offset
        nt.utoff = z.types[prev_type].utoff + *rc::gen::element(3600, -3600, 1800, -1800, 7200);
        if (nt.utoff >= 86400 || nt.utoff <= -86400) nt.utoff = z.types[prev_type].utoff;
      }
      int ti = type_index(nt);
      if (twin && z.types.size() < 18) {
        // zic writes "twin" types that differ only in their standard/wall or UT/local indicators:
        // a separate table entry with the same offset, isdst and abbreviation.  Moving to it changes nothing.
        z.types.push_back(nt); ti = (int)z.types.size() - 1; z.indicators = true;
      }
      int32_t delta = z.types[ti].utoff - z.types[prev_type].utoff;
      int64_t need = (int64_t)std::abs(prev_delta) + std::abs(delta) + 1;
      if (i > 0) {
        int64_t gap = *rc::gen::weightedOneOf<int64_t>({{2, rc::gen::just<int64_t>(0)}, {2, vf::range<int64_t>(0, 86400)},
                                                        {4, vf::range<int64_t>(86400, 400 * 86400)}, {2, vf::range<int64_t>(Y, 30 * Y)}});
        t += need + gap;
        // legacy files: the type in force before the first transition is chosen by a heuristic, so the size of the first
        // change is not known here; keep the second entry clear of any possible size (offsets span < 48 h)
        if (legacy_type0 && i == 1) t += 2 * 86400;
      }
      if (z.version == 1 && t > INT32_MAX) break;
      z.trans.push_back(zm::Trans{t, ti});
      prev_type = ti; prev_delta = delta;
    }
    // --- tail
    if (fk == 3) {
      zm::Model rm; rm.px = P; rm.has_rule = true;
      int std_ti = type_index(TypeSpec{P.std_off, false, P.std_abbr});
      int dst_ti = type_index(TypeSpec{P.dst_off, true, P.dst_abbr});
      i128 y = refcal::from_secs(t).y + (z.trans.empty() ? 0 : 1);
      int nyears = *rc::gen::weightedElement<int>({{3, 1}, {3, 2}, {2, 5}, {2, 40}, {1, 150}});
      int cut = *vf::range<int>(0, 1);  // stop after the first transition of the final year?
      std::vector<zm::Trans> tail;
      for (int k = 0; k < nyears; ++k) {
        i128 s, e; rm.rule_transitions(y + k, &s, &e);
        std::pair<i128, int> a{s, dst_ti}, b{e, std_ti};
        if (b.first < a.first) std::swap(a, b);
        tail.push_back(zm::Trans{(int64_t)a.first, a.second});
        if (!(k == nyears - 1 && cut)) tail.push_back(zm::Trans{(int64_t)b.first, b.second});
      }
      int64_t save = std::abs(P.dst_off - P.std_off);
      for (auto& tr : tail) {
        int32_t delta = z.types[tr.type].utoff - z.types[prev_type].utoff;
        int64_t need = (int64_t)std::abs(prev_delta) + std::abs(delta) + 1;
        if (!z.trans.empty() && tr.t < z.trans.back().t + need + save) continue;  // keep W5 across the seam
        if (z.version == 1 && (tr.t > INT32_MAX || tr.t < INT32_MIN)) continue;
        z.trans.push_back(tr);
        prev_type = tr.type; prev_delta = delta;
      }
      if (z.trans.empty() || (z.trans.back().type != std_ti && z.trans.back().type != dst_ti)) {
        // no rule entry could be recorded: fall back to a footer-less file
        fk = 0;
      } else {
        z.has_footer = true;
        z.footer = posix_text(P, *vf::range<int>(0, 3) == 0, *vf::range<int>(0, 5) == 0);
      }
    }
    if (fk == 1 || fk == 2) {
      // the footer must describe the last recorded type (or type 0 when there is no transition)
      TypeSpec last = z.trans.empty() ? z.types[0] : z.types[z.trans.back().type];
      if (fk == 2) {
        int dst_ti = type_index(TypeSpec{P.dst_off, true, P.dst_abbr});
        int32_t delta = P.dst_off - last.utoff;
        t += (int64_t)std::abs(prev_delta) + std::abs(delta) + 1 + *vf::range<int64_t>(0, 400 * 86400);
        if (!(z.version == 1 && t > INT32_MAX)) {
          z.trans.push_back(zm::Trans{t, dst_ti});
          z.has_footer = true;
          z.footer = posix_text(P, true, true);
        } else fk = 0;
      } else {
        if (last.isdst || last.abbr.empty()) {
          // make the final type a standard one
          TypeSpec nt{last.utoff, false, *abbr_gen()};
          int ti = type_index(nt);
          t += (int64_t)std::abs(prev_delta) + 1 + *vf::range<int64_t>(0, 400 * 86400);
          if (!(z.version == 1 && t > INT32_MAX)) { z.trans.push_back(zm::Trans{t, ti}); last = nt; }
        }
        if (!last.isdst) {
          px::Posix S; S.std_abbr = last.abbr; S.std_off = last.utoff;
          z.has_footer = true;
          z.footer = posix_text(S, false, false);
        }
      }
    }
    if (z.version == 1) { z.has_footer = false; z.footer.clear(); }
    // --- a zone described by rules alone (zic -b slim for "Zone X 1:00 R CE%sT" with rules since 1900): ONE type, one
    // recorded transition to it (a no-op), and a footer that needs a second type which the table does not contain
    if (fk == 3 && z.has_footer && z.version != 1 && *vf::range<int>(0, 19) == 0) {
      zm::Model rm; rm.px = P; rm.has_rule = true;
      const i128 y = *vf::range<int>(1850, 2030);
      i128 s0, e0; rm.rule_transitions(y, &s0, &e0);
      const bool to_dst = *vf::range<int>(0, 1) == 1;
      z.types.clear(); z.trans.clear();
      z.types.push_back(to_dst ? TypeSpec{P.dst_off, true, P.dst_abbr} : TypeSpec{P.std_off, false, P.std_abbr});
      z.trans.push_back(zm::Trans{(int64_t)(to_dst ? s0 : e0), 0});
    }
    // --- like zic -b slim: one zone in three keeps only the types that some transition refers to (and type 0), so a
    // footer may need a type that the table does not contain
    if (*vf::range<int>(0, 2) == 0 && z.types.size() > 1) {
      std::vector<int> used(z.types.size(), 0); used[0] = 1;
      for (auto& tr : z.trans) used[tr.type] = 1;
      std::vector<int> remap(z.types.size(), -1); std::vector<TypeSpec> kept;
      for (size_t i = 0; i < z.types.size(); ++i) if (used[i]) { remap[i] = (int)kept.size(); kept.push_back(z.types[i]); }
      if (kept.size() != z.types.size()) {
        for (auto& tr : z.trans) tr.type = remap[tr.type];
        z.types = kept;
      }
    }
    // --- optional big-bang entry (pre-2018 zic): first entry at -2^59 with the pre-first type
    if (z.version != 1 && !z.types[0].isdst && *vf::range<int>(0, 7) == 0 &&
        (z.trans.empty() || z.trans.front().t > -(1LL << 58))) {
      z.trans.insert(z.trans.begin(), zm::Trans{-(1LL << 59), 0});
    }
    char note[160];
    snprintf(note, sizeof note, "v%d %s footer=%s trans=%zu types=%zu", z.version, z.fat ? "fat" : "slim",
             z.has_footer ? z.footer.c_str() : "(none)", z.trans.size(), z.types.size());
    z.note = note;
    return z;
  });
}

}  // namespace zg
