// libFuzzer target for C09: unstructured (zone, format, input) triples; oracle =
// sanitizers + determinism + "an accepted result re-formats and re-parses to itself".
#include "c09_core.h"
#include "fuzzutil.h"

extern "C" int LLVMFuzzerTestOneInput(const uint8_t* data, size_t size) {
  fz::Stats& st = fz::Stats::get();
  st.ev.eval();
  std::string why; bool acc = false;
  if (!c09::fuzz_oracle(data, size, &why, &acc)) fz::fail(why);
  st.ev.cls(acc ? "accepted" : "rejected");
  if (acc) st.ev.nt(vf::fnv(data, size));
  if (acc && st.ev.want_sample("fuzz_accepted")) st.ev.sample("fuzz_accepted", vf::hex(std::string((const char*)data, std::min<size_t>(size, 60))));
  return 0;
}
