// C06: convert(civil, zone) preserves order.  Relation oracle over sorted
// sequences of anchored civil seconds (every gap/overlap neighbourhood, the
// extension seam, far-future years, civil min/max) and adjacent pairs.
#include "zoneoracle.h"

using vf::i128;
static vf::Evidence*& EV = zo::EV;

struct Pt { i128 csecs; bool nontrivial; };

static bool check_sequence(const zp::Zone& z, const zp::Handle& h, const std::vector<Pt>& pts, std::string* why,
                           i128* bad_a, i128* bad_b) {
  bool have = false; i128 prev_c = 0; int64_t prev_t = 0;
  const uint64_t zh = vf::fnv(z.bytes);
  for (const Pt& p : pts) {
    const refcal::Civil c = refcal::from_secs(p.csecs);
    if (!zp::cs_fits(c)) continue;
    const int64_t t = h.convert(zp::cs_of(c));
    EV->eval();
    if (have && p.csecs > prev_c && t < prev_t) {
      *why = "convert(" + refcal::str(refcal::from_secs(prev_c)) + ")=" + vf::i64_str(prev_t) + " > convert(" + refcal::str(c) +
             ")=" + vf::i64_str(t) + " although the first civil time is earlier";
      *bad_a = prev_c; *bad_b = p.csecs;
      return false;
    }
    if (have && p.nontrivial) EV->nt(vf::mix(zh, (uint64_t)(p.csecs ^ (p.csecs >> 64)) ^ (uint64_t)(prev_c * 31)));
    if (t == INT64_MAX || t == INT64_MIN) EV->cls("saturated_value_in_sequence");
    have = true; prev_c = p.csecs; prev_t = t;
  }
  return true;
}

static std::vector<Pt> sequence_for(const zm::Model& m, const zp::Anchors& an, uint64_t zh) {
  std::vector<Pt> pts;
  // calendar seams far from any offset change: the turn of the year and the end of February of 64 years per zone
  // (chosen by the zone's bytes in -20000..20000, so that over all zones every position in the 400-year cycle, on
  // both sides of year 0, is visited many times)
  for (int k = 0; k < 64; ++k) {
    const int64_t y = (int64_t)(vf::splitmix(zh + (uint64_t)k * 0x9e3779b97f4a7c15ULL) % 40001) - 20000;
    for (i128 x : {refcal::to_secs(refcal::Civil{y - 1, 12, 31, 23, 59, 59}), refcal::to_secs(refcal::Civil{y, 2, 28, 23, 59, 59}), refcal::to_secs(refcal::Civil{y, 3, 1, 0, 0, 0}) - 1}) {
      pts.push_back(Pt{x, false}); pts.push_back(Pt{x + 1, false});  // the last second before the seam and the first after it
    }
  }
  for (const zo::CivilPoint& cp : zo::civil_points(m, an)) {
    pts.push_back(Pt{cp.csecs, cp.nontrivial});
    pts.push_back(Pt{cp.csecs + 1, cp.nontrivial});  // adjacent pair (cs, cs+1)
  }
  std::sort(pts.begin(), pts.end(), [](const Pt& a, const Pt& b) { return a.csecs < b.csecs; });
  pts.erase(std::unique(pts.begin(), pts.end(), [](const Pt& a, const Pt& b) { return a.csecs == b.csecs; }), pts.end());
  return pts;
}

static bool check_zone(const zp::Zone& z, zp::Handle& h, bool in_rc, bool full, vf::Case* fc, std::string* why) {
  fc->set("sweep", full ? "full" : "thin");
  if (!h.ok) return true;
  const zp::Anchors an = zp::anchors_for(z.model, full);
  std::vector<Pt> pts = sequence_for(z.model, an, vf::fnv(z.bytes));
  if (in_rc) {
    // mix in generated civil times, then sort again; also walk a shuffled-by-generation descending copy
    int n = *vf::range<int>(8, 40);
    for (int k = 0; k < n; ++k) {
      i128 x = *vf::range<int>(0, 2) == 0 || an.instants.empty() ? (i128)*vf::any_i64()
               : (i128)an.instants[*vf::index(an.instants.size())] + *vf::range<int64_t>(-200000, 200000);
      pts.push_back(Pt{x, false});
    }
    std::sort(pts.begin(), pts.end(), [](const Pt& a, const Pt& b) { return a.csecs < b.csecs; });
  }
  i128 a = 0, b = 0;
  vf::CurrentScope scope([&]() { vf::Case c; c.set("zone", z.label); c.set("note", "died inside the ascending walk"); return c; });
  if (!check_sequence(z, h, pts, why, &a, &b)) { fc->set("cs1", a); fc->set("cs2", b); return false; }
  // the same pairs visited in descending order (order of calls must not matter for the relation)
  for (size_t i = pts.size(); i-- > 1;) {
    const refcal::Civil c2 = refcal::from_secs(pts[i].csecs), c1 = refcal::from_secs(pts[i - 1].csecs);
    if (!zp::cs_fits(c1) || !zp::cs_fits(c2)) continue;
    const int64_t t2 = h.convert(zp::cs_of(c2)), t1 = h.convert(zp::cs_of(c1));
    EV->eval();
    if (t1 > t2) {
      *why = "descending walk: convert(" + refcal::str(c1) + ")=" + vf::i64_str(t1) + " > convert(" + refcal::str(c2) + ")=" + vf::i64_str(t2);
      fc->set("cs1", pts[i - 1].csecs); fc->set("cs2", pts[i].csecs); fc->set("walk", "descending");
      return false;
    }
  }
  if (EV->want_sample(z.kind))
    EV->sample(z.kind, z.kind + " zone (" + zc::zone_class(z.model) + "): sorted sequence of " + std::to_string(pts.size()) + " civil seconds from " +
                           refcal::str(refcal::from_secs(pts.front().csecs)) + " to " + refcal::str(refcal::from_secs(pts.back().csecs)));
  return true;
}

static bool replay(const vf::Case& c, std::string* why) {
  vf::Evidence ev; EV = &ev;
  zp::Zone z = zp::zone_from_label(c.get("zone"));
  if (!z.model.in_domain()) return true;
  zp::Handle h = zp::open_public(z.load_name);
  if (!h.ok) return true;
  if (c.has("cs1")) {
    std::vector<Pt> two = {Pt{c.num("cs1"), true}, Pt{c.num("cs2"), true}};
    i128 a, b;
    if (!check_sequence(z, h, two, why, &a, &b)) return false;
    if (!c.has("sweep")) return true;
  }
  vf::Case fc;
  return check_zone(z, h, false, c.get("sweep", "full") == "full", &fc, why);
}

static void run(const vf::Args& a, vf::Evidence& ev, vf::Reporter& rep) {
  EV = &ev; zo::ARGS = &a;
  ev.rule = "zones as in C01. For each zone one sorted, duplicate-free sequence of civil seconds: for every table entry "
            "(recorded, each of the 403 rule years, 400-year images, last representable year) the gap/overlap interior, "
            "edges +-2 s, +-1 day, each with its successor second (adjacent pairs), civil_second::min()/max() +- k, the turn of the year and the end of February of 64 years in -20000..20000, plus "
            "generated civil times; convert() must be non-decreasing along the ascending walk and the descending re-walk. "
            "Non-trivial pair = touches a gap/overlap neighbourhood, the seam/far years or a saturated end; distinct by (zone, pair).";
  zc::Ctx c{&a, &ev, &rep};
  zc::ZoneProp p;
  p.check_zone = check_zone;
  zc::run_all(c, p, 900, 5000);
}

int main(int argc, char** argv) { return vf::main_dispatch(argc, argv, "C06", run, replay); }
