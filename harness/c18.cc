// C18: sub-second (and coarser) time points floor toward the past in lookup,
// convert, format and parse.  Typed panel of duration types; oracle = floor
// division in 128-bit + refcal.
#include <chrono>
#include <ratio>
#include "cctz/time_zone.h"
#include "common.h"
#include "rcutil.h"
#include "refcal.h"

using vf::i128;
static vf::Evidence* EV;
static vf::Reporter* REP;

static cctz::time_point<cctz::seconds> tps(int64_t t) {
  return std::chrono::time_point_cast<cctz::seconds>(std::chrono::system_clock::from_time_t(0)) + cctz::seconds(t);
}
template <typename D>
static cctz::time_point<D> tp_of(typename D::rep v) {
  return cctz::time_point<D>(D(v));  // system_clock epoch == Unix epoch (checked in main)
}

static std::vector<cctz::time_zone>& zones() {
  static std::vector<cctz::time_zone> z = [] {
    std::vector<cctz::time_zone> v;
    v.push_back(cctz::utc_time_zone());
    v.push_back(cctz::fixed_time_zone(cctz::seconds(5 * 3600 + 45 * 60 + 30)));
    v.push_back(cctz::fixed_time_zone(cctz::seconds(-(3 * 3600 + 1))));
    cctz::time_zone ny;
    if (cctz::load_time_zone("America/New_York", &ny)) v.push_back(ny);
    return v;
  }();
  return z;
}

static std::string pad(i128 v, int width) {
  std::string s = vf::i128_str(v);
  while ((int)s.size() < width) s = "0" + s;
  return s;
}
static std::string civil_text(const refcal::Civil& c) {  // %Y-%m-%d %H:%M:%S
  char b[40];
  snprintf(b, sizeof b, "-%02d-%02d %02d:%02d:%02d", c.m, c.d, c.hh, c.mm, c.ss);
  return vf::i128_str(c.y) + b;
}
static std::string frac_digits(int64_t fs, int n) {  // %E#f, n in 0..18
  std::string d = pad(fs, 15);
  if (n <= 15) return d.substr(0, n);
  return d + std::string(n - 15, '0');
}
static std::string frac_star(int64_t fs) {  // %E*f
  std::string d = pad(fs, 15);
  while (!d.empty() && d.back() == '0') d.pop_back();
  return d.empty() ? "0" : d;
}

#define REQ(cond, msg) do { if (!(cond)) { *why = (msg); return false; } } while (0)

// ---- lookup / convert / format for one value of one type -------------------
template <typename D>
static bool check_value(const char* tname, typename D::rep v, int zi, int ndig, std::string* why) {
  using P = typename D::period;
  const i128 num = P::num, den = P::den;
  const i128 S = refcal::fdiv((i128)v * num, den);          // whole second at or below
  const i128 rem_num = (i128)v * num - S * den;              // remainder = rem_num/den seconds, 0 <= . < 1
  const int64_t fs = (int64_t)((rem_num * (i128)1000000000000000LL) / den);  // truncated femtoseconds
  if (!refcal::fits64(S)) return true;
  const std::string ctx = std::string(tname) + " rep=" + vf::i128_str((i128)v) + " zone#" + std::to_string(zi) + ": ";
  const cctz::time_zone tz = zones()[zi % zones().size()];
  const auto tp = tp_of<D>(v);
  const auto ref = tz.lookup(tps((int64_t)S));
  const auto got = tz.lookup(tp);
  REQ(got.cs == ref.cs && got.offset == ref.offset && got.is_dst == ref.is_dst && std::string(got.abbr) == ref.abbr,
      ctx + "lookup(tp) differs from lookup(floor second " + vf::i128_str(S) + ")");
  const refcal::Civil exp = refcal::from_secs(S + ref.offset);
  REQ((i128)got.cs.year() == exp.y && got.cs.month() == exp.m && got.cs.day() == exp.d && got.cs.hour() == exp.hh &&
          got.cs.minute() == exp.mm && got.cs.second() == exp.ss,
      ctx + "lookup(tp).cs is not the civil second of the floor second; expected " + refcal::str(exp));
  REQ(cctz::convert(tp, tz) == ref.cs, ctx + "convert(tp, tz) differs from the floor second's civil time");
  // format: whole-second fields and fraction fields
  const std::string whole = cctz::format("%Y-%m-%d %H:%M:%S", tp, tz);
  REQ(whole == civil_text(exp), ctx + "format whole fields '" + whole + "' expected '" + civil_text(exp) + "'");
  const std::string sstar = cctz::format("%E*f|%E*S", tp, tz);
  char ss[8]; snprintf(ss, sizeof ss, "%02d", exp.ss);
  const std::string exp_star = frac_star(fs) + "|" + ss + (fs ? "." + frac_star(fs) : "");
  REQ(sstar == exp_star, ctx + "format(%E*f|%E*S) = '" + sstar + "' expected '" + exp_star + "'");
  const std::string f = "%E" + std::to_string(ndig) + "f|%E" + std::to_string(ndig) + "S";
  const std::string gn = cctz::format(f, tp, tz);
  const std::string en = frac_digits(fs, ndig) + "|" + ss + (ndig ? "." + frac_digits(fs, ndig) : "");
  REQ(gn == en, ctx + "format(" + f + ") = '" + gn + "' expected '" + en + "'");
  // several fractional fields in one format string, with library-rendered whole fields between them: every field is
  // rendered from the same instant, whatever was rendered before it
  {
    char two[8];
    const uint64_t hsh = vf::mix((uint64_t)((i128)v ^ ((i128)v >> 64)), (uint64_t)ndig * 131 + zi);
    const int nd2 = (int)(hsh % 19), nd3 = (int)((hsh >> 8) % 19);
    auto whole_field = [&](int k, std::string* fmt, std::string* expd) {
      switch (k % 7) {
        case 0: *fmt += "%Y"; *expd += vf::i128_str(exp.y); break;
        case 1: *fmt += "%m"; snprintf(two, sizeof two, "%02d", exp.m); *expd += two; break;
        case 2: *fmt += "%d"; snprintf(two, sizeof two, "%02d", exp.d); *expd += two; break;
        case 3: *fmt += "%H"; snprintf(two, sizeof two, "%02d", exp.hh); *expd += two; break;
        case 4: *fmt += "%M"; snprintf(two, sizeof two, "%02d", exp.mm); *expd += two; break;
        case 5: *fmt += "%S"; snprintf(two, sizeof two, "%02d", exp.ss); *expd += two; break;
        default: *fmt += "%s"; *expd += vf::i128_str(S); break;
      }
    };
    auto frac_field = [&](int kind, int n, std::string* fmt, std::string* expd) {
      switch (kind % 4) {
        case 0: *fmt += "%E" + std::to_string(n) + "f"; *expd += frac_digits(fs, n); break;
        case 1: *fmt += "%E*f"; *expd += frac_star(fs); break;
        case 2: *fmt += "%E" + std::to_string(n) + "S"; *expd += std::string(ss) + (n ? "." + frac_digits(fs, n) : std::string()); break;
        default: *fmt += "%E*S"; *expd += std::string(ss) + (fs ? "." + frac_star(fs) : std::string()); break;
      }
    };
    std::string mf, me;
    frac_field((int)(hsh >> 16), ndig, &mf, &me); mf += " "; me += " ";
    whole_field((int)(hsh >> 20), &mf, &me); mf += " "; me += " ";
    frac_field((int)(hsh >> 24), nd2, &mf, &me); mf += " "; me += " ";
    whole_field((int)(hsh >> 28), &mf, &me); mf += "|"; me += "|";
    frac_field((int)(hsh >> 32), nd3, &mf, &me);
    const std::string mg = cctz::format(mf, tp, tz);
    REQ(mg == me, ctx + "format(" + mf + ") = '" + mg + "' expected '" + me + "'");
  }
  return true;
}

// ---- parse into whole-second-or-coarser types -------------------------------
// T = denoted instant (seconds), frac = fractional digits in the text.
template <typename D>
static bool check_parse(const char* tname, int64_t T, const std::string& frac, bool use_percent_s, std::string* why) {
  using P = typename D::period;
  using Rep = typename D::rep;
  static_assert(P::den == 1, "whole seconds or coarser only");
  const i128 q = refcal::fdiv((i128)T, (i128)P::num);
  const bool fits = q >= (i128)std::numeric_limits<Rep>::min() && q <= (i128)std::numeric_limits<Rep>::max();
  std::string fmt, text;
  if (use_percent_s) { fmt = "%s"; text = vf::i64_str(T); }
  else {
    const refcal::Civil c = refcal::from_secs(T);
    char b[48];
    snprintf(b, sizeof b, "-%02d-%02dT%02d:%02d:%02d", c.m, c.d, c.hh, c.mm, c.ss);
    fmt = "%Y-%m-%dT%H:%M:%E*S%Ez";
    text = vf::i128_str(c.y) + b + (frac.empty() ? "" : "." + frac) + "+00:00";
  }
  const std::string ctx = std::string(tname) + " parse('" + fmt + "','" + text + "'): ";
  cctz::time_point<D> out = tp_of<D>(Rep(42));
  const bool ok = cctz::parse(fmt, text, cctz::utc_time_zone(), &out);
  if (!fits) { REQ(!ok, ctx + "succeeded although floor(T/Num)=" + vf::i128_str(q) + " does not fit the representation (wrapped to " + vf::i128_str((i128)out.time_since_epoch().count()) + ")"); return true; }
  REQ(ok, ctx + "failed although the floored count " + vf::i128_str(q) + " fits");
  REQ((i128)out.time_since_epoch().count() == q, ctx + "count " + vf::i128_str((i128)out.time_since_epoch().count()) + " expected floor = " + vf::i128_str(q));
  return true;
}
// sub-second targets: value only, within the safely representable range
template <typename D>
static bool check_parse_sub(const char* tname, int64_t T, const std::string& frac, std::string* why) {
  using P = typename D::period;
  using Rep = typename D::rep;
  static_assert(P::num == 1, "sub-second");
  // exact value floor((T + 0.frac) * den), with frac cut to 15 digits as documented
  std::string f15 = frac.substr(0, std::min<size_t>(15, frac.size()));
  i128 fsv = 0; for (char ch : f15) fsv = fsv * 10 + (ch - '0');
  for (size_t i = f15.size(); i < 15; ++i) fsv *= 10;
  const i128 ticks = (i128)T * P::den + (fsv * P::den) / (i128)1000000000000000LL;
  const i128 lim = (i128)std::numeric_limits<Rep>::max() / 4;  // stay clear of the unchecked-overflow TODO(#199)
  if (ticks > lim || ticks < -lim || (i128)T * P::den > lim || (i128)T * P::den < -lim) return true;
  const refcal::Civil c = refcal::from_secs(T);
  char b[48];
  snprintf(b, sizeof b, "-%02d-%02dT%02d:%02d:%02d", c.m, c.d, c.hh, c.mm, c.ss);
  const std::string fmt = "%Y-%m-%dT%H:%M:%E*S%Ez";
  const std::string text = vf::i128_str(c.y) + b + (frac.empty() ? "" : "." + frac) + "+00:00";
  cctz::time_point<D> out;
  const std::string ctx = std::string(tname) + " parse('" + text + "'): ";
  REQ(cctz::parse(fmt, text, cctz::utc_time_zone(), &out), ctx + "failed");
  REQ((i128)out.time_since_epoch().count() == ticks, ctx + "count " + vf::i128_str((i128)out.time_since_epoch().count()) + " expected " + vf::i128_str(ticks));
  return true;
}

// ---- type panel -------------------------------------------------------------
using ns64 = std::chrono::duration<int64_t, std::nano>;
using us64 = std::chrono::duration<int64_t, std::micro>;
using ms64 = std::chrono::duration<int64_t, std::milli>;
using s64 = std::chrono::duration<int64_t>;
using min32 = std::chrono::duration<int32_t, std::ratio<60>>;
using h32 = std::chrono::duration<int32_t, std::ratio<3600>>;
using s8 = std::chrono::duration<int8_t>;
using s16 = std::chrono::duration<int16_t>;
using min8 = std::chrono::duration<int8_t, std::ratio<60>>;
using min16 = std::chrono::duration<int16_t, std::ratio<60>>;
using third = std::chrono::duration<int64_t, std::ratio<1, 3>>;
using fs64 = std::chrono::duration<int64_t, std::femto>;
// (days cannot be formatted: duration_cast to femtoseconds overflows at compile time)

#define PANEL(X) X(ns64) X(us64) X(ms64) X(s64) X(min32) X(h32) X(s8) X(s16) X(min8) X(min16) X(third) X(fs64)

template <typename D>
static bool dispatch_value(const char* n, i128 v, int zi, int nd, std::string* why) {
  return check_value<D>(n, (typename D::rep)v, zi, nd, why);
}
static bool value_by_name(const std::string& t, i128 v, int zi, int nd, std::string* why) {
#define X(T) if (t == #T) return dispatch_value<T>(#T, v, zi, nd, why);
  PANEL(X)
#undef X
  *why = "unknown type " + t; return false;
}
static bool parse_by_name(const std::string& t, int64_t T, const std::string& frac, bool ps, std::string* why) {
  if (t == "s64") return check_parse<s64>("s64", T, frac, ps, why);
  if (t == "min32") return check_parse<min32>("min32", T, frac, ps, why);
  if (t == "h32") return check_parse<h32>("h32", T, frac, ps, why);
  if (t == "s8") return check_parse<s8>("s8", T, frac, ps, why);
  if (t == "s16") return check_parse<s16>("s16", T, frac, ps, why);
  if (t == "min8") return check_parse<min8>("min8", T, frac, ps, why);
  if (t == "min16") return check_parse<min16>("min16", T, frac, ps, why);
  if (t == "ns64") return check_parse_sub<ns64>("ns64", T, frac, why);
  if (t == "us64") return check_parse_sub<us64>("us64", T, frac, why);
  if (t == "ms64") return check_parse_sub<ms64>("ms64", T, frac, why);
  if (t == "third") return check_parse_sub<third>("third", T, frac, why);
  if (t == "fs64") return check_parse_sub<fs64>("fs64", T, frac, why);
  *why = "unknown type " + t; return false;
}

static bool replay(const vf::Case& c, std::string* why) {
  if (c.get("kind") == "parse")
    return parse_by_name(c.get("type"), (int64_t)c.num("T"), c.get("frac"), c.num("percent_s") != 0, why);
  return value_by_name(c.get("type"), c.num("rep"), (int)c.num("zone"), (int)c.num("digits"), why);
}

// rep value generator for a type: anchored on tick-per-second multiples and limits
template <typename D>
static i128 gen_rep(std::string* cls) {
  using Rep = typename D::rep; using P = typename D::period;
  const i128 lo = std::numeric_limits<Rep>::min(), hi = std::numeric_limits<Rep>::max();
  const i128 tps_ = P::den / P::num > 0 ? (i128)(P::den / P::num) : 1;  // ticks per second (>=1)
  int style = *vf::range<int>(0, 5);
  i128 v;
  switch (style) {
    case 0: v = *vf::range<int64_t>(-3, 3); *cls = "around_zero"; break;
    case 1: v = (i128)*vf::range<int64_t>(-5, 5) * tps_ + *vf::range<int64_t>(-2, 2); *cls = "second_boundary"; break;
    case 2: v = lo + *vf::range<int64_t>(0, 3); *cls = "rep_min"; break;
    case 3: v = hi - *vf::range<int64_t>(0, 3); *cls = "rep_max"; break;
    case 4: { int64_t e = *vf::edge_i64(); v = e; *cls = "edge"; break; }
    default: {
      uint64_t r = *rc::gen::resize(100, rc::gen::arbitrary<uint64_t>());
      unsigned __int128 span1 = (unsigned __int128)(hi - lo) + 1;
      v = lo + (i128)((unsigned __int128)r % span1); *cls = "uniform";
    }
  }
  if (v < lo) v = lo;
  if (v > hi) v = hi;
  return v;
}

template <typename D>
static void run_values(const char* tname, const vf::Args& a, int stream) {
  long budget = a.budget(100000, 400000);
  vf::rc_run(std::string("C18.value.") + tname, a.stream_seed(stream), (int)budget, *REP, [&]() {
    std::string cls;
    i128 v = gen_rep<D>(&cls);
    int zi = *vf::range<int>(0, 3);
    int nd = *vf::range<int>(0, 18);
    using P = typename D::period;
    i128 S = refcal::fdiv(v * P::num, P::den);
    bool neg_rem = v < 0 && (v * P::num - S * P::den) != 0;
    EV->eval();
    EV->cls(std::string(tname) + ":" + cls);
    if (neg_rem) EV->cls("negative_with_nonzero_remainder");
    bool limit = cls == "rep_min" || cls == "rep_max";
    if (neg_rem || limit) EV->nt(vf::mix(vf::fnv(tname, strlen(tname)), (uint64_t)(v ^ (v >> 64)) * 31 + nd));
    if (EV->want_sample(tname))
      EV->sample(tname, std::string(tname) + " rep=" + vf::i128_str(v) + " -> floor second " + vf::i128_str(S) + " digits=" + std::to_string(nd));
    vf::Case c; c.set("kind", "value").set("type", tname).set("rep", v).set("zone", zi).set("digits", nd);
    vf::CurrentScope cur([&]() { return c; });
    std::string why;
    if (!check_value<D>(tname, (typename D::rep)v, zi, nd, &why)) { REP->failing(c, why); RC_FAIL(why); }
  });
}

template <typename D>
static void run_parse(const char* tname, const vf::Args& a, int stream) {
  long budget = a.budget(60000, 250000);
  using P = typename D::period; using Rep = typename D::rep;
  vf::rc_run(std::string("C18.parse.") + tname, a.stream_seed(stream), (int)budget, *REP, [&]() {
    const i128 num = P::num, den = P::den;
    const i128 lo = std::numeric_limits<Rep>::min(), hi = std::numeric_limits<Rep>::max();
    int style = *vf::range<int>(0, 5);
    i128 T; std::string cls;
    switch (style) {
      case 0: T = *vf::range<int64_t>(-2, 2) * num + *vf::range<int64_t>(-(int64_t)std::min<i128>(num, 100000), (int64_t)std::min<i128>(num, 100000)); cls = "near_epoch"; break;
      case 1: T = *vf::range<int64_t>(-100000, 100000) * num + *vf::range<int64_t>(-1, 1); cls = "tick_boundary"; break;
      case 2: T = (den == 1 ? lo * num : lo / den) + *vf::range<int64_t>(-(int64_t)std::min<i128>(2 * num, 100000), (int64_t)std::min<i128>(2 * num, 100000)); cls = "rep_min_boundary"; break;
      case 3: T = (den == 1 ? hi * num : hi / den) + *vf::range<int64_t>(-(int64_t)std::min<i128>(2 * num, 100000), (int64_t)std::min<i128>(2 * num, 100000)); cls = "rep_max_boundary"; break;
      case 4: T = *vf::edge_i64(); cls = "edge"; break;
      default: T = *vf::any_i64(); cls = "uniform";
    }
    if (T < refcal::kI64Min) T = refcal::kI64Min;
    if (T > refcal::kI64Max) T = refcal::kI64Max;
    std::string frac;
    int nf = *rc::gen::weightedElement<int>({{2, 0}, {2, 1}, {2, 3}, {1, 9}, {1, 15}, {1, 18}});
    for (int i = 0; i < nf; ++i) frac.push_back((char)('0' + *vf::range<int>(0, 9)));
    if (nf && *vf::range<int>(0, 3) == 0) frac = std::string(nf, '9');
    bool ps = den == 1 && *vf::range<int>(0, 2) == 0;
    EV->eval();
    EV->cls(std::string("parse:") + tname + ":" + cls);
    i128 q = refcal::fdiv(T, num);
    bool nontriv = (T < 0 && T % num != 0) || cls == "rep_min_boundary" || cls == "rep_max_boundary" || !frac.empty();
    if (nontriv) EV->nt(vf::mix(vf::fnv(tname, strlen(tname)) + 7, (uint64_t)T ^ vf::fnv(frac)));
    if (den == 1 && (q < lo || q > hi)) EV->cls("parse_expected_failure_out_of_range");
    if (EV->want_sample(std::string("parse_") + tname))
      EV->sample(std::string("parse_") + tname, std::string(tname) + " T=" + vf::i128_str(T) + " frac='" + frac + "'" + (ps ? " via %s" : ""));
    vf::Case c; c.set("kind", "parse").set("type", tname).set("T", T).set("frac", frac).set("percent_s", ps ? 1 : 0);
    vf::CurrentScope cur([&]() { return c; });
    std::string why;
    if (!parse_by_name(tname, (int64_t)T, frac, ps, &why)) { REP->failing(c, why); RC_FAIL(why); }
  });
}

static void run(const vf::Args& a, vf::Evidence& ev, vf::Reporter& rep) {
  vf::History::enabled() = true;  // failing cases carry the cases that ran just before them (state between calls)
  EV = &ev; REP = &rep;
  ev.rule = "rapidcheck per duration type (int64 ns/us/ms/s, int32 min/h, int8/int16 s/min, 1/3-second, femtosecond): "
            "rep values around zero, k*ticks-per-second+-2, representation limits, +-2^k, uniform; x 4 zones x 0..18 "
            "fraction digits. lookup/convert/format vs 128-bit floor; parse into every panel type from %s and from a "
            "full RFC3339-like text with 0-18 fraction digits. Non-trivial: negative instant with non-zero remainder, "
            "or within a tick of a representation limit, or a fractional parse input.";
  if (std::chrono::system_clock::to_time_t(std::chrono::system_clock::time_point()) != 0) {
    ev.cls("harness_note_system_clock_epoch_not_unix");
  }
  int stream = 10;
  // shards split the type panel round-robin
  int idx = 0;
#define X(T) if ((idx++ % a.nshards) == a.shard) { run_values<T>(#T, a, stream); run_parse<T>(#T, a, stream + 100); } stream++;
  PANEL(X)
#undef X
}

int main(int argc, char** argv) { return vf::main_dispatch(argc, argv, "C18", run, replay); }
