// C15: fixed-offset zones and their names.  Exhaustive over offsets in
// [-90000, 90000]; rapidcheck over mutated / random name strings.  Oracle:
// naming rules written from the documentation (fixedref, below) + refcal.
#include <atomic>
#include "cctz/time_zone.h"
#include "cctz/zone_info_source.h"
#include "common.h"
#include "rcutil.h"
#include "refcal.h"
#include "time_zone_fixed.h"

using vf::i128;

// A data source that serves nothing and counts how often it is consulted.
static std::atomic<long> g_factory_calls{0};
namespace cctz_extension {
static std::unique_ptr<cctz::ZoneInfoSource> counting_factory(
    const std::string&, const std::function<std::unique_ptr<cctz::ZoneInfoSource>(const std::string&)>&) {
  ++g_factory_calls;
  return nullptr;
}
ZoneInfoSourceFactory zone_info_source_factory = counting_factory;
}  // namespace cctz_extension

// ---- fixedref: the documented naming rules ---------------------------------
static std::string ref_name(int64_t o) {
  if (o == 0 || o > 86400 || o < -86400) return "UTC";
  int64_t a = o < 0 ? -o : o;
  char buf[32];
  snprintf(buf, sizeof buf, "Fixed/UTC%c%02d:%02d:%02d", o < 0 ? '-' : '+', (int)(a / 3600), (int)(a / 60 % 60), (int)(a % 60));
  return buf;
}
static std::string ref_abbr(int64_t o) {
  if (o == 0 || o > 86400 || o < -86400) return "UTC";
  int64_t a = o < 0 ? -o : o;
  char buf[32];
  int h = (int)(a / 3600), m = (int)(a / 60 % 60), s = (int)(a % 60);
  if (s) snprintf(buf, sizeof buf, "%c%02d%02d%02d", o < 0 ? '-' : '+', h, m, s);
  else if (m) snprintf(buf, sizeof buf, "%c%02d%02d", o < 0 ? '-' : '+', h, m);
  else snprintf(buf, sizeof buf, "%c%02d", o < 0 ? '-' : '+', h);
  return buf;
}
// Is the string a fixed-offset name?  If so, which offset.
static bool ref_parse(const std::string& s, int64_t* off) {
  if (s == "UTC" || s == "UTC0") { *off = 0; return true; }
  if (s.size() != 18 || s.compare(0, 9, "Fixed/UTC") != 0) return false;
  auto dig = [&](size_t i) { return s[i] >= '0' && s[i] <= '9'; };
  if (s[9] != '+' && s[9] != '-') return false;
  if (s[12] != ':' || s[15] != ':') return false;
  for (size_t i : {10, 11, 13, 14, 16, 17}) if (!dig(i)) return false;
  int64_t h = (s[10] - '0') * 10 + (s[11] - '0'), m = (s[13] - '0') * 10 + (s[14] - '0'), sec = (s[16] - '0') * 10 + (s[17] - '0');
  int64_t tot = h * 3600 + m * 60 + sec;
  if (tot > 86400) return false;
  *off = s[9] == '-' ? -tot : tot;
  return true;
}

static cctz::time_point<cctz::seconds> tp(int64_t t) {
  return std::chrono::time_point_cast<cctz::seconds>(std::chrono::system_clock::from_time_t(0)) + cctz::seconds(t);
}
static int64_t unix_of(cctz::time_point<cctz::seconds> p) { return (p - tp(0)).count(); }

static bool same_civil(const cctz::civil_second& cs, const refcal::Civil& c) {
  return (i128)cs.year() == c.y && cs.month() == c.m && cs.day() == c.d && cs.hour() == c.hh &&
         cs.minute() == c.mm && cs.second() == c.ss;
}

#define REQ(cond, msg) do { if (!(cond)) { *why = (msg); return false; } } while (0)

// Full oracle for one offset and a list of instants.
static bool check_offset(int64_t o, const std::vector<int64_t>& instants, std::string* why) {
  const std::string ctx = "offset " + vf::i64_str(o) + ": ";
  const long calls0 = g_factory_calls.load();
  const cctz::time_zone tz = cctz::fixed_time_zone(cctz::seconds(o));
  const std::string name = ref_name(o), abbr = ref_abbr(o);
  const bool is_utc = (name == "UTC");
  const int64_t eff = is_utc ? 0 : o;
  REQ(tz.name() == name, ctx + "name() = '" + tz.name() + "' expected '" + name + "'");
  REQ((tz == cctz::utc_time_zone()) == is_utc, ctx + "equality with utc_time_zone() wrong");
  REQ(cctz::FixedOffsetToName(cctz::seconds(o)) == name, ctx + "FixedOffsetToName = '" + cctz::FixedOffsetToName(cctz::seconds(o)) + "'");
  REQ(cctz::FixedOffsetToAbbr(cctz::seconds(o)) == abbr, ctx + "FixedOffsetToAbbr = '" + cctz::FixedOffsetToAbbr(cctz::seconds(o)) + "' expected '" + abbr + "'");
  cctz::seconds back(12345);
  REQ(cctz::FixedOffsetFromName(name, &back) && back.count() == eff, ctx + "FixedOffsetFromName(name) does not map back");
  cctz::time_zone loaded;
  REQ(cctz::load_time_zone(name, &loaded), ctx + "load_time_zone('" + name + "') failed");
  REQ(loaded == tz, ctx + "load_time_zone(name) is not equal to fixed_time_zone(offset)");
  REQ(g_factory_calls.load() == calls0, ctx + "zone data source was consulted for a fixed-offset name");
  for (int64_t t : instants) {
    const auto al = tz.lookup(tp(t));
    const refcal::Civil exp = refcal::from_secs((i128)t + eff);
    REQ(al.offset == eff, ctx + "lookup(" + vf::i64_str(t) + ").offset = " + std::to_string(al.offset));
    REQ(!al.is_dst, ctx + "is_dst set at " + vf::i64_str(t));
    REQ(std::string(al.abbr) == abbr, ctx + "abbr '" + al.abbr + "' expected '" + abbr + "' at " + vf::i64_str(t));
    REQ(same_civil(al.cs, exp), ctx + "civil second at " + vf::i64_str(t) + " expected " + refcal::str(exp));
    // and back: the civil second is unique and maps to t
    const auto cl = tz.lookup(al.cs);
    REQ(cl.kind == cctz::time_zone::civil_lookup::UNIQUE && unix_of(cl.pre) == t && unix_of(cl.trans) == t && unix_of(cl.post) == t,
        ctx + "civil->instant of lookup(" + vf::i64_str(t) + ").cs is not UNIQUE/t");
  }
  return true;
}

// Oracle for one arbitrary string.
static bool check_name(const std::string& s, std::string* why) {
  const std::string ctx = "name '" + vf::esc(s) + "': ";
  int64_t exp_off = 0;
  const bool exp = ref_parse(s, &exp_off);
  cctz::seconds got(777);
  const bool acc = cctz::FixedOffsetFromName(s, &got);
  REQ(acc == exp, ctx + (acc ? "accepted as a fixed-offset name but is not one" : "rejected but is a fixed-offset name"));
  if (acc) REQ(got.count() == exp_off, ctx + "offset " + vf::i64_str(got.count()) + " expected " + vf::i64_str(exp_off));
  const long calls0 = g_factory_calls.load();
  // another spelling of the same offset (the canonical one) is loaded before or after this one: each spelling must
  // keep reporting the name it was asked for, and fixed_time_zone(offset) the canonical one
  const bool canon_first = exp && exp_off != 0 && (vf::fnv(s) & 1);
  cctz::time_zone ctz;
  if (canon_first) REQ(cctz::load_time_zone(ref_name(exp_off), &ctz) && ctz.name() == ref_name(exp_off), ctx + "canonical name of the same offset loads as '" + ctz.name() + "'");
  cctz::time_zone tz;
  const bool ok = cctz::load_time_zone(s, &tz);
  const long used = g_factory_calls.load() - calls0;
  if (exp && exp_off != 0) {
    REQ(ok && tz.name() == s, ctx + "the loaded zone reports the name '" + vf::esc(tz.name()) + "' instead of the requested one");
    REQ(cctz::load_time_zone(ref_name(exp_off), &ctz) && ctz.name() == ref_name(exp_off), ctx + "after loading this spelling, the canonical name of the same offset loads as '" + vf::esc(ctz.name()) + "'");
    REQ(cctz::fixed_time_zone(cctz::seconds(exp_off)).name() == ref_name(exp_off), ctx + "after loading this spelling, fixed_time_zone(offset) is named '" + vf::esc(cctz::fixed_time_zone(cctz::seconds(exp_off)).name()) + "'");
  }
  if (exp) {
    REQ(ok, ctx + "load_time_zone failed for a fixed-offset name");
    REQ(used == 0, ctx + "data source consulted for a fixed-offset name");
    const auto al = tz.lookup(tp(0));
    REQ(al.offset == exp_off && !al.is_dst, ctx + "loaded zone has offset " + std::to_string(al.offset));
    if (s == ref_name(exp_off)) REQ(tz == cctz::fixed_time_zone(cctz::seconds(exp_off)), ctx + "canonical name not equal to fixed_time_zone");
    if (exp_off == 0 && (s == "UTC" || s == "UTC0")) REQ(tz == cctz::utc_time_zone(), ctx + "not UTC");
  } else {
    // not a fixed name: goes to the data source (ours has nothing) => false + UTC.
    // ("libc:" names are an internal test-only interface that bypasses the source.)
    if (s.compare(0, 5, "libc:") != 0) {
      REQ(!ok, ctx + "load_time_zone succeeded without any zone data (treated as a fixed-offset name?)");
    }
  }
  return true;
}

// a sequence of calls on one thread: every answer must be what the same call answers alone (no state between calls)
static bool check_offset_sequence(const std::vector<int64_t>& offs, std::string* why) {
  for (size_t i = 0; i < offs.size(); ++i)
    if (!check_offset(offs[i], {0, 1700000000}, why)) { *why = "call #" + std::to_string(i + 1) + " of the sequence, fixed_time_zone(" + vf::i64_str(offs[i]) + "): " + *why; return false; }
  return true;
}
static bool replay(const vf::Case& c, std::string* why) {
  if (c.has("name_hex")) return check_name(vf::unhex(c.get("name_hex")), why);
  if (c.has("offset_sequence")) {
    std::vector<int64_t> offs; std::istringstream q(c.get("offset_sequence")); std::string t;
    while (q >> t) offs.push_back((int64_t)vf::str_i128(t));
    return check_offset_sequence(offs, why);
  }
  std::vector<int64_t> ins;
  std::istringstream is(c.get("instants"));
  std::string tok;
  while (is >> tok) ins.push_back((int64_t)vf::str_i128(tok));
  return check_offset((int64_t)c.num("offset"), ins, why);
}

static rc::Gen<std::string> name_gen() {
  return rc::gen::exec([]() -> std::string {
    // start from a canonical-looking name built from fields that may be out of range
    int h = *rc::gen::weightedOneOf<int>({{3, vf::range<int>(0, 24)}, {1, vf::range<int>(0, 99)}});
    int m = *rc::gen::weightedOneOf<int>({{3, vf::range<int>(0, 59)}, {1, vf::range<int>(0, 99)}});
    int s = *rc::gen::weightedOneOf<int>({{3, vf::range<int>(0, 59)}, {1, vf::range<int>(0, 99)}});
    if (*vf::range<int>(0, 5) == 0) { h = 24; m = *rc::gen::element(0, 0, 1); s = *rc::gen::element(0, 1, 0); }
    if (*vf::range<int>(0, 7) == 0) { h = 23; m = 59; s = *rc::gen::element(59, 60, 99); }
    char buf[64];
    snprintf(buf, sizeof buf, "Fixed/UTC%c%02d:%02d:%02d", *rc::gen::element('+', '-'), h, m, s);
    std::string n = buf;
    int nmut = *rc::gen::weightedElement<int>({{3, 0}, {4, 1}, {2, 2}, {1, 3}});
    static const std::string alphabet = std::string("0123456789:+-/UTCFixedutcf .\t\n,;9") + std::string(1, '\0') + "\xff\x80\x7f";
    for (int k = 0; k < nmut; ++k) {
      int kind = *vf::range<int>(0, 5);
      size_t pos = n.empty() ? 0 : *vf::index(n.size());
      char ch = alphabet[*vf::index(alphabet.size())];
      switch (kind) {
        case 0: if (!n.empty()) n[pos] = ch; break;                 // replace
        case 1: n.insert(n.begin() + pos, ch); break;                // insert
        case 2: if (!n.empty()) n.erase(n.begin() + pos); break;     // delete
        case 3: if (!n.empty()) n[pos] = (char)(n[pos] ^ 0x20); break;  // case flip
        case 4: n = *rc::gen::element<std::string>("UTC", "UTC0", "utc", "UTC00", "UTC+0", "Fixed/UTC", "UTC ", "", "Fixed/UTC+00:00:00", "Fixed/UTC-00:00:00", "Fixed/UTC+24:00:00", "Fixed/UTC-24:00:00", "Fixed/UTC+24:00:01", "Fixed/UTC-24:00:01"); break;
        default: if (n.size() > 9) n[9 + *vf::index(n.size() - 9)] = ch; break;  // replace in the numeric tail
      }
    }
    if (*vf::range<int>(0, 19) == 0) n = *rc::gen::container<std::string>(rc::gen::arbitrary<char>());
    // prefixes that belong to other kinds of names (data-source selectors, a leading ':'): never part of a fixed-offset name
    if (*vf::range<int>(0, 11) == 0) n = *rc::gen::element<std::string>("file:", "libc:", ":", "/", "./", "posix/", "file:/") + n;
    return n;
  });
}

static void run(const vf::Args& a, vf::Evidence& ev, vf::Reporter& rep) {
  vf::History::enabled() = true;  // failing cases carry the cases that ran just before them (state between calls)
  ev.rule = "(1) exhaustive: every integer offset in [-90000, 90000] s (quick: every 7th offset plus all offsets within "
            "61 s of a whole hour and the +-24h neighbourhood), each x instants {int64 min/max, 0, +-2^31, +-2^59, "
            "generated}: name, abbreviation, lookup both ways, load by name, no data-source access, name->offset. "
            "(2) rapidcheck: names built from possibly out-of-range fields with 0-3 edits (replace/insert/delete/case, "
            "NUL and 8-bit bytes, prefixes of other name kinds such as 'file:') and random strings, against the documented acceptance rule. (3) rapidcheck: int64 offsets far beyond 24 h (+-2^k, multiples of 2^32 +- in-range values, uniform): must be UTC. (4) rapidcheck: sequences of 2-6 related offsets on one thread (equal modulo 2^32 / 2^16 / 2^31 seconds, minutes or hours, "
            "negated, neighbours, repeated, one high bit flipped): each call answers as it does alone. Non-trivial: every "
            "non-zero offset (distinct by value); names within the mutation family (distinct by content).";
  // generated instants (shared by all offsets of this shard), drawn once from rapidcheck
  std::vector<int64_t> extra;
  vf::rc_run("C15.instants", a.stream_seed(2), 1, rep, [&]() {
    for (int i = 0; i < 6; ++i) extra.push_back(*vf::any_i64());
  });
  std::vector<int64_t> instants = {INT64_MIN, INT64_MAX, 0, 1LL << 31, -(1LL << 31), 1LL << 59, -(1LL << 59), -1, 86399};
  instants.insert(instants.end(), extra.begin(), extra.end());
  std::string inst_text;
  for (int64_t t : instants) inst_text += vf::i64_str(t) + " ";

  uint64_t n_off = 0;
  int64_t cur_off = 0;
  vf::CurrentScope cur([&]() { vf::Case c; c.set("offset", cur_off); c.set("instants", inst_text); return c; });
  for (int64_t o = -90000; o <= 90000; ++o) {
    if (((o + 90000) % a.nshards) != a.shard) continue;
    bool take = a.thorough();
    if (!take) {
      int64_t r = ((o % 3600) + 3600) % 3600;
      take = (o % 7 == 0) || r <= 61 || r >= 3600 - 61 || (o > 86300 || o < -86300);
    }
    if (!take) continue;
    cur_off = o;
    std::string why;
    ++n_off;
    ev.eval(instants.size());
    if (o != 0) ev.nt(vf::splitmix((uint64_t)o));
    ev.cls(o == 0 ? "offset_zero" : (o > 86400 || o < -86400) ? "offset_beyond_24h" : (o % 60) ? "offset_with_seconds"
           : (o % 3600) ? "offset_with_minutes" : "offset_whole_hours");
    if (!check_offset(o, instants, &why)) {
      vf::Case c; c.set("offset", o); c.set("instants", inst_text);
      rep.failing(c, why); rep.commit();
      break;
    }
    if (ev.want_sample("offset") && (o % 977 == 0 || o == 86400 || o == -86399))
      ev.sample("offset", vf::i64_str(o) + " -> name " + ref_name(o) + " abbr " + ref_abbr(o));
  }
  ev.exhaustive = a.thorough();
  ev.extra["offsets_enumerated"] = std::to_string(n_off);

  // offsets far beyond 24 hours (any int64 second count): always UTC
  vf::rc_run("C15.huge_offsets", a.stream_seed(3), (int)a.budget(3000, 40000), rep, [&]() {
    int64_t o = *rc::gen::oneOf(vf::edge_i64(), vf::any_i64(),
                                rc::gen::map(rc::gen::tuple(vf::range<int64_t>(-3, 3), vf::range<int64_t>(-90000, 90000)),
                                             [](const std::tuple<int64_t, int64_t>& t) { return (int64_t)(std::get<0>(t) * 4294967296LL + std::get<1>(t)); }));
    ev.eval();
    ev.cls((o > 86400 || o < -86400) ? "offset_beyond_24h" : "offset_within_24h_generated");
    ev.nt(vf::splitmix((uint64_t)o) ^ 0x77);
    vf::Case c; c.set("offset", o); c.set("instants", "0 1700000000");
    vf::CurrentScope cs([&]() { return c; });
    std::string why;
    if (!check_offset(o, {0, 1700000000}, &why)) { rep.failing(c, why); RC_FAIL(why); }
  });
  // sequences of related offsets on one thread (equal modulo 2^32 / 2^16, negated, neighbours, repeated): the answer of a
  // call must not depend on the calls before it
  vf::rc_run("C15.offset_sequences", a.stream_seed(4), (int)a.budget(4000, 50000), rep, [&]() {
    std::vector<int64_t> offs;
    const int n = *vf::range<int>(2, 6);
    int64_t base = *rc::gen::weightedOneOf<int64_t>({{4, vf::range<int64_t>(-86400, 86400)}, {1, vf::range<int64_t>(-90000, 90000)}, {1, vf::edge_i64()}});
    offs.push_back(base);
    for (int i = 1; i < n; ++i) {
      const int64_t prev = offs[*vf::index(offs.size())];
      int64_t o = prev;
      switch (*vf::range<int>(0, 7)) {
        case 0: o = (int64_t)((uint64_t)prev + (uint64_t)(*vf::range<int64_t>(-3, 3)) * 4294967296ULL * (uint64_t)*rc::gen::element<int64_t>(1, 1, 60, 3600)); break;   // same low 32 bits, in seconds / minutes / hours
        case 1: o = (int64_t)((uint64_t)prev + (uint64_t)(*vf::range<int64_t>(-3, 3)) * 65536ULL * (uint64_t)*rc::gen::element<int64_t>(1, 1, 60, 3600)); break;        // same low 16 bits
        case 2: o = prev == INT64_MIN ? prev : -prev; break;
        case 3: o = (int64_t)((uint64_t)prev + (uint64_t)*vf::range<int64_t>(-2, 2)); break;
        case 4: o = prev; break;
        case 5: o = (int64_t)((uint64_t)prev + (uint64_t)(*vf::range<int64_t>(-2, 2)) * (1ULL << 31)); break;
        case 6: o = (int64_t)((uint64_t)prev ^ (1ULL << *vf::range<int>(17, 63))); break;                        // one high bit flipped
        default: o = *vf::range<int64_t>(-86400, 86400); break;
      }
      offs.push_back(o);
    }
    std::string text; for (int64_t o : offs) text += vf::i64_str(o) + " ";
    ev.eval(offs.size()); ev.cls("offset_sequences"); ev.nt(vf::fnv(text));
    vf::Case c; c.set("offset_sequence", text);
    vf::CurrentScope cs([&]() { return c; });
    std::string why;
    if (!check_offset_sequence(offs, &why)) { rep.failing(c, why); RC_FAIL(why); }
  });
  long budget = a.budget(120000, 800000);
  vf::rc_run("C15.names", a.stream_seed(1), (int)budget, rep, [&]() {
    std::string n = *name_gen();
    int64_t off;
    bool isfixed = ref_parse(n, &off);
    ev.eval();
    ev.nt(vf::fnv(n));
    ev.cls(isfixed ? "name_is_fixed" : "name_not_fixed");
    if (n.find('\0') != std::string::npos) ev.cls("name_with_NUL");
    if (ev.want_sample(isfixed ? "name_fixed" : "name_other")) ev.sample(isfixed ? "name_fixed" : "name_other", vf::esc(n));
    vf::CurrentScope cs([&]() { vf::Case c; c.set("name_hex", vf::hex(n)); return c; });
    std::string why;
    if (!check_name(n, &why)) {
      vf::Case c; c.set("name_hex", vf::hex(n)); c.set("name_printable", vf::esc(n));
      rep.failing(c, why);
      RC_FAIL(why);
    }
  });
}

int main(int argc, char** argv) { return vf::main_dispatch(argc, argv, "C15", run, replay); }
