// C07: format() followed by parse() returns the original instant, for a
// generated family of lossless formats.
#include "fmtref.h"

static vf::Evidence* EV;
static const vf::Args* ARGS;

// One piece of a lossless format.  after: what may follow directly.
//   0 = anything, 1 = needs a separator that is not a digit, 2 = needs a separator that is neither digit nor ':' '.'
struct Piece { std::string text; int after; bool lead_space; };

static std::string sep_gen(int need) {
  // separators never contain digits, letters, ':', '.', '+', '-' (so that they cannot extend a neighbouring field)
  static const std::vector<std::string> safe = {" ", "/", ",", ";", "_", "|", "#", "@", "=", "~", " / ", ", ", "%%", "  "};
  if (need == 0 && *vf::range<int>(0, 2) == 0) return "";
  return safe[*vf::index(safe.size())];
}

struct Plan { std::string fmt; bool uses_percent_s = false; bool week_form = false, name_form = false, e4y = false, frac = false, twelve = false; };

static Plan plan_gen(int offset_secs, int64_t year, int64_t fs) {
  Plan P;
  std::vector<Piece> pieces;
  if (fs == 0 && *vf::range<int>(0, 9) == 0) {
    P.uses_percent_s = true;
    pieces.push_back(Piece{"%s", 1, false});
  } else {
    // year
    if (year >= -999 && year <= 9999 && *vf::range<int>(0, 2) == 0) { pieces.push_back(Piece{"%E4Y", 0, false}); P.e4y = true; }
    else pieces.push_back(Piece{"%Y", 1, false});
    // date
    int d = *vf::range<int>(0, 5);
    switch (d) {
      case 0: case 1: pieces.push_back(Piece{"%m", 0, false}); pieces.push_back(Piece{"%d", 0, false}); break;
      case 2: pieces.push_back(Piece{*rc::gen::element<std::string>("%b", "%B", "%h"), 2, false}); { bool e = *vf::range<int>(0, 2) == 0; pieces.push_back(Piece{e ? "%e" : "%d", e ? 1 : 0, true}); } P.name_form = true; break;  // " 8" + digits would be read as a two-digit day
      case 3: pieces.push_back(Piece{"%U", 1, false}); pieces.push_back(Piece{*rc::gen::element<std::string>("%w", "%u", "%a", "%A"), 2, false}); P.week_form = true; break;
      case 4: pieces.push_back(Piece{"%W", 1, false}); pieces.push_back(Piece{*rc::gen::element<std::string>("%u", "%w", "%a"), 2, false}); P.week_form = true; break;
      default: {  // ignored extras; %Z consumes everything up to the next white space, so white space must follow it
        pieces.push_back(Piece{"%m", 0, false}); pieces.push_back(Piece{"%d", 0, false});
        std::string x = *rc::gen::element<std::string>("%a", "%j", "%Z", "%A");
        pieces.push_back(Piece{x, x == "%Z" ? 3 : 2, false});
        break;
      }
    }
    // time
    int tstyle = *vf::range<int>(0, 8);
    int need_digits = 0; { int64_t v = fs; int n = 15; while (n > 0 && v % 10 == 0) { v /= 10; --n; } need_digits = fs ? n : 0; }
    if (fs != 0 && (tstyle == 4 || tstyle == 5 || tstyle == 8)) tstyle = *rc::gen::element(0, 1, 2, 3, 6, 7);  // plain %S / %T / %r would lose the fraction
    switch (tstyle) {
      case 0: pieces.push_back(Piece{"%H", 0, false}); pieces.push_back(Piece{"%M", 0, false}); pieces.push_back(Piece{"%E*S", 2, false}); break;
      case 1: pieces.push_back(Piece{"%H", 0, false}); pieces.push_back(Piece{"%M", 0, false}); pieces.push_back(Piece{"%S.%E*f", 2, false}); break;
      case 2: pieces.push_back(Piece{"%H", 0, false}); pieces.push_back(Piece{"%M", 0, false}); pieces.push_back(Piece{"%E" + std::to_string(*vf::range<int>(need_digits, 18)) + "S", 2, false}); break;
      case 3: pieces.push_back(Piece{"%H:%M:%E*S", 2, false}); break;
      case 4: pieces.push_back(Piece{"%H", 0, false}); pieces.push_back(Piece{"%M", 0, false}); pieces.push_back(Piece{"%S", 0, false}); break;
      // the hour on the 12-hour clock with its AM/PM marker (the pieces are shuffled: the marker may come first)
      case 6: pieces.push_back(Piece{"%I", 0, false}); pieces.push_back(Piece{"%M", 0, false}); pieces.push_back(Piece{"%E*S", 2, false}); pieces.push_back(Piece{"%p", 2, false}); P.twelve = true; break;
      case 7: pieces.push_back(Piece{"%l", 1, true}); pieces.push_back(Piece{"%M", 0, false}); pieces.push_back(Piece{"%S.%E*f", 2, false}); pieces.push_back(Piece{"%p", 2, false}); P.twelve = true; break;
      case 8: pieces.push_back(Piece{"%r", 2, false}); P.twelve = true; break;
      default: pieces.push_back(Piece{"%T", 0, false}); break;
    }
    if (fs != 0) P.frac = true;
    // offset
    std::vector<std::string> offs = {"%E*z", "%::z", "%:::z"};
    if (offset_secs % 60 == 0) { offs.push_back("%z"); offs.push_back("%Ez"); offs.push_back("%:z"); }
    pieces.push_back(Piece{offs[*vf::index(offs.size())], 2, false});
  }
  // random order: a permutation drawn from rapidcheck
  for (size_t i = pieces.size(); i > 1; --i) std::swap(pieces[i - 1], pieces[*vf::index(i)]);
  std::string f = *vf::range<int>(0, 3) == 0 ? sep_gen(1) : "";
  for (size_t i = 0; i < pieces.size(); ++i) {
    if (pieces[i].lead_space && (f.empty() || f.back() != ' ')) f += " ";
    f += pieces[i].text;
    if (i + 1 < pieces.size()) {
      std::string s = pieces[i].after == 3 ? std::string(" ") : sep_gen(pieces[i].after);
      if (pieces[i].after && s.empty()) s = " ";
      f += s;
    } else if (pieces[i].after == 3) f += " ";
    else if (*vf::range<int>(0, 3) == 0) f += sep_gen(1);
  }
  P.fmt = f;
  return P;
}

static bool oracle(const std::string& fmt, const fr::ZoneEntry& zf, const fr::ZoneEntry& zp, int64_t t, int64_t fs, std::string* why) {
  const std::string text = cctz::detail::format(fmt, fr::tp(t), cctz::detail::femtoseconds(fs), zf.tz);
  cctz::time_point<cctz::seconds> sec; cctz::detail::femtoseconds f2; std::string err;
  const bool ok = cctz::detail::parse(fmt, text, zp.tz, &sec, &f2, &err);
  if (!ok) { *why = "parse('" + vf::esc(fmt) + "', '" + vf::esc(text) + "') failed (" + err + "); formatted from t=" + vf::i64_str(t) + " fs=" + vf::i64_str(fs) + " in " + zf.label; return false; }
  if (fr::unix_of(sec) != t || f2.count() != fs) {
    *why = "round trip through '" + vf::esc(fmt) + "' / '" + vf::esc(text) + "' returned t=" + vf::i64_str(fr::unix_of(sec)) + " fs=" + vf::i64_str(f2.count()) + ", expected t=" + vf::i64_str(t) + " fs=" + vf::i64_str(fs) + " (formatted in " + zf.label + ", parsed with " + zp.label + ")";
    return false;
  }
  return true;
}

static bool replay(const vf::Case& c, std::string* why) {
  const fr::ZoneEntry* zf = fr::zone_by_label(c.get("zone")); const fr::ZoneEntry* zp = fr::zone_by_label(c.get("parse_zone"));
  if (!zf || !zp) return true;
  return oracle(vf::unhex(c.get("format_hex")), *zf, *zp, (int64_t)c.num("t"), (int64_t)c.num("fs"), why);
}

static void run(const vf::Args& a, vf::Evidence& ev, vf::Reporter& rep) {
  vf::History::enabled() = true;  // failing cases carry the cases that ran just before them (state between calls)
  EV = &ev; ARGS = &a;
  ev.rule = "rapidcheck: zone (UTC, 14 fixed offsets incl. +-30 s, +-23:59:59, +-24h; 12 shipped zones) x anchored instant (int64 "
            "limits, outermost 2 days, transitions, year boundaries around -1000/0/9999/10000 and the int-year limits, uniform) x "
            "femtoseconds x a format from the lossless grammar: year %Y | %E4Y(in range); date %m%d | %b/%B/%h + %d/%e | %U + "
            "%w/%u/%a/%A | %W + %u/%w/%a | with ignored extras %a %j %Z; time %H %M with %S | %E*S | %S.%E*f | %E#S | %T | "
            "%H:%M:%E*S; offset %E*z | %::z | %:::z | (%z %Ez %:z when the offset has no seconds); or %s; random piece order and "
            "separators that keep variable-width fields delimited; parsed with a different random zone. Non-trivial = negative or "
            "> 4-digit year, non-zero fs, offset with seconds, week-number or month-name form, |t| > 2^55.";
  long budget = a.budget(150000, 1500000);
  vf::rc_run("C07.roundtrip", a.stream_seed(1), (int)budget, rep, [&]() {
    const auto& zs = fr::zones();
    const fr::ZoneEntry& zf = zs[*vf::index(zs.size())];
    const fr::ZoneEntry& zp = zs[*vf::index(zs.size())];
    const int64_t t = fr::instant_gen(zf.tz);
    int64_t fs = fr::femto_gen();
    const auto al = zf.tz.lookup(fr::tp(t));
    if (al.offset >= 86400 || al.offset <= -86400) {
      if (a.excluded("offset_magnitude_24h")) { EV->excl("offset_magnitude_24h"); RC_DISCARD("known finding R3"); }
    }
    const Plan P = plan_gen(al.offset, al.cs.year(), fs);
    if (P.uses_percent_s) fs = 0;
    vf::Case c; c.set("zone", zf.label); c.set("parse_zone", zp.label); c.set("format_hex", vf::hex(P.fmt)); c.set("format_printable", vf::esc(P.fmt)); c.set("t", t); c.set("fs", fs);
    vf::CurrentScope cur([&]() { return c; });
    EV->eval();
    if (P.week_form) EV->cls("date_by_week_number"); if (P.name_form) EV->cls("date_by_month_name"); if (P.e4y) EV->cls("year_E4Y"); if (P.twelve) EV->cls("hour_on_the_12_hour_clock");
    if (P.uses_percent_s) EV->cls("percent_s"); if (al.offset % 60) EV->cls("offset_with_seconds");
    bool nt = al.cs.year() < 0 || al.cs.year() > 9999 || fs != 0 || (al.offset % 60) != 0 || P.week_form || P.name_form || t > (1LL << 55) || t < -(1LL << 55);
    if (nt) EV->nt(vf::mix(vf::fnv(P.fmt), vf::mix((uint64_t)t, (uint64_t)fs ^ vf::fnv(zf.label))));
    if (EV->want_sample(P.week_form ? "week" : P.name_form ? "name" : P.uses_percent_s ? "%s" : "plain"))
      EV->sample(P.week_form ? "week" : P.name_form ? "name" : P.uses_percent_s ? "%s" : "plain", zf.label + " t=" + vf::i64_str(t) + " fs=" + vf::i64_str(fs) + " '" + vf::esc(P.fmt) + "' -> '" + vf::esc(cctz::detail::format(P.fmt, fr::tp(t), cctz::detail::femtoseconds(fs), zf.tz)) + "'");
    std::string why;
    if (!oracle(P.fmt, zf, zp, t, fs, &why)) { rep.failing(c, why); RC_FAIL(why); }
  });
}

int main(int argc, char** argv) { return vf::main_dispatch(argc, argv, "C07", run, replay); }
