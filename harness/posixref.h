// posixref: independent recursive-descent reader of POSIX-TZ rule strings, as
// used in TZif footers (POSIX.1 TZ + the tz project's extensions: <...>
// abbreviations, rule times of -167..167 hours).  Written from the grammar in
// properties C16 / RFC 9636 sec. 3.3, not from the cctz source.
#pragma once
#include <cstdint>
#include <string>

namespace px {

struct Date {
  enum Kind { J, N, M } kind = J;
  int day = 0;                      // J: 1..365, N: 0..365
  int month = 0, week = 0, wday = 0;  // M
  int32_t time = 7200;              // seconds after 00:00 local, may be negative or > 24h
  bool operator==(const Date& o) const {
    if (kind != o.kind || time != o.time) return false;
    return kind == M ? (month == o.month && week == o.week && wday == o.wday) : day == o.day;
  }
};
struct Posix {
  std::string std_abbr;
  int32_t std_off = 0;  // seconds EAST of UTC (sign already inverted)
  bool has_dst = false;
  std::string dst_abbr;
  int32_t dst_off = 0;
  Date start, end;
};

class Parser {
 public:
  explicit Parser(const std::string& s) : s_(s) {
    // like every C-string consumer, the effective text ends at the first NUL
    size_t z = s_.find('\0');
    if (z != std::string::npos) s_.resize(z);
  }
  bool parse(Posix* out) {
    Posix p;
    if (peek() == ':') return false;
    if (!abbr(&p.std_abbr)) return false;
    int32_t v;
    if (!offset(0, 24, &v)) return false;
    p.std_off = -v;
    if (eof()) { *out = p; return true; }
    if (!abbr(&p.dst_abbr)) return false;
    p.has_dst = true;
    p.dst_off = p.std_off + 3600;
    if (peek() != ',') {
      if (!offset(0, 24, &v)) return false;
      p.dst_off = -v;
    }
    if (!rule(&p.start)) return false;
    if (!rule(&p.end)) return false;
    if (!eof()) return false;
    *out = p;
    return true;
  }

 private:
  std::string s_;
  size_t i_ = 0;
  bool eof() const { return i_ >= s_.size(); }
  int peek() const { return eof() ? -1 : (unsigned char)s_[i_]; }
  static bool isdig(int c) { return c >= '0' && c <= '9'; }

  bool abbr(std::string* a) {
    a->clear();
    if (peek() == '<') {
      size_t j = s_.find('>', i_ + 1);
      if (j == std::string::npos) return false;
      *a = s_.substr(i_ + 1, j - i_ - 1);
      i_ = j + 1;
      return true;
    }
    size_t b = i_;
    while (!eof() && !isdig(peek()) && peek() != '+' && peek() != '-' && peek() != ',') ++i_;
    if (i_ - b < 3) return false;
    *a = s_.substr(b, i_ - b);
    return true;
  }
  bool number(int lo, int hi, int* v) {
    if (!isdig(peek())) return false;
    long long n = 0;
    while (isdig(peek())) {
      n = n * 10 + (peek() - '0');
      if (n > 2147483647LL) return false;
      ++i_;
    }
    if (n < lo || n > hi) return false;
    *v = (int)n;
    return true;
  }
  // [+-]hh[:mm[:ss]] ; returns the value as written (positive = as written)
  bool offset(int lo_h, int hi_h, int32_t* out) {
    int sign = 1;
    if (peek() == '+' || peek() == '-') { if (peek() == '-') sign = -1; ++i_; }
    int h = 0, m = 0, s = 0;
    if (!number(lo_h, hi_h, &h)) return false;
    if (peek() == ':') {
      ++i_;
      if (!number(0, 59, &m)) return false;
      if (peek() == ':') {
        ++i_;
        if (!number(0, 59, &s)) return false;
      }
    }
    *out = sign * (h * 3600 + m * 60 + s);
    return true;
  }
  bool rule(Date* d) {
    if (peek() != ',') return false;
    ++i_;
    if (peek() == 'M') {
      ++i_;
      d->kind = Date::M;
      if (!number(1, 12, &d->month)) return false;
      if (peek() != '.') return false;
      ++i_;
      if (!number(1, 5, &d->week)) return false;
      if (peek() != '.') return false;
      ++i_;
      if (!number(0, 6, &d->wday)) return false;
    } else if (peek() == 'J') {
      ++i_;
      d->kind = Date::J;
      if (!number(1, 365, &d->day)) return false;
    } else {
      d->kind = Date::N;
      if (!number(0, 365, &d->day)) return false;
    }
    d->time = 7200;
    if (peek() == '/') {
      ++i_;
      int32_t v;
      if (!offset(0, 167, &v)) return false;
      d->time = v;
    }
    return true;
  }
};

inline bool parse(const std::string& s, Posix* out) { return Parser(s).parse(out); }

}  // namespace px
