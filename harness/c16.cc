// C16: POSIX-TZ rule strings: exact acceptance and fully determined result.
// rapidcheck: sentences from the grammar with every optional part present or
// absent and every number at/just beyond its bound, single-edit mutants, and
// random strings.  (The byte-level libFuzzer campaign is c16fuzz.cc.)
#include "c16_core.h"
#include "rcutil.h"

static vf::Evidence* EV;
static bool g_valid_only = false;  // sentence mode: every part drawn from its valid range (near misses then come from edits)

static rc::Gen<std::string> abbr_gen() {
  return rc::gen::exec([]() -> std::string {
    int style = g_valid_only ? *rc::gen::element(0, 1, 2, 4, 6) : *vf::range<int>(0, 7);
    static const char* letters = "ABCDEFGHIJKLMNOPQRSTUVWXYZabcdefghijklmnopqrstuvwxyz";
    auto word = [&](int n) { std::string s; for (int i = 0; i < n; ++i) s.push_back(letters[*vf::index(52)]); return s; };
    switch (style) {
      case 0: case 1: case 2: return word(*vf::range<int>(3, 6));
      case 3: return word(*vf::range<int>(0, 2));                       // too short
      case 4: { std::string q = "<"; int n = *vf::range<int>(0, 6); static const char* qa = "ABCxyz0123456789+-"; for (int i = 0; i < n; ++i) q.push_back(qa[*vf::index(18)]); return q + ">"; }
      case 5: return "<" + word(3);                                     // unterminated
      case 6: return word(2) + *rc::gen::element<std::string>("!", "_", " ", ".", "/", ":", "*", "\x80", ";") + word(1);  // odd but legal characters
      default: return word(3) + *rc::gen::element<std::string>("", "1", "+", "-", ",");
    }
  });
}
static rc::Gen<std::string> num_gen(int lo, int hi) {
  return rc::gen::exec([lo, hi]() -> std::string {
    int v = g_valid_only ? *rc::gen::weightedOneOf<int>({{3, vf::range<int>(lo, hi)}, {1, rc::gen::element(lo, hi)}})
                         : *rc::gen::weightedOneOf<int>({{5, vf::range<int>(lo, hi)}, {2, rc::gen::element(lo, hi, hi + 1, lo > 0 ? lo - 1 : hi + 2)}, {1, vf::range<int>(0, 400)}});
    char b[32];
    int style = *vf::range<int>(0, 5);
    if (style == 0) snprintf(b, sizeof b, "%02d", v);
    else if (style == 1) snprintf(b, sizeof b, "%03d", v);
    else snprintf(b, sizeof b, "%d", v);
    if (!g_valid_only && *vf::range<int>(0, 40) == 0) return std::string("99999999999999999999");
    if (!g_valid_only && *vf::range<int>(0, 30) == 0) { char w[32]; snprintf(w, sizeof w, "%lld", 4294967296LL * *vf::range<int>(1, 2) + v); return std::string(w); }  // in range only modulo 2^32
    if (!g_valid_only && *vf::range<int>(0, 40) == 0) {  // in range only modulo 2^64 (20 digits)
      unsigned __int128 big = ((unsigned __int128)*vf::range<int>(1, 3) << 64) + (unsigned __int128)(v < 0 ? 0 : v);
      std::string d; while (big) { d.insert(d.begin(), (char)('0' + (int)(big % 10))); big /= 10; }
      return d;
    }
    if (!g_valid_only && *vf::range<int>(0, 40) == 0) return std::string("");
    return b;
  });
}
static rc::Gen<std::string> offset_gen(int maxh) {
  return rc::gen::exec([maxh]() -> std::string {
    std::string s = g_valid_only ? *rc::gen::weightedElement<std::string>({{5, ""}, {2, "-"}, {2, "+"}})
                                 : *rc::gen::weightedElement<std::string>({{5, ""}, {2, "-"}, {2, "+"}, {1, "--"}, {1, "+-"}});
    s += *num_gen(0, maxh);
    int parts = g_valid_only ? *rc::gen::weightedElement<int>({{4, 0}, {3, 1}, {3, 2}}) : *rc::gen::weightedElement<int>({{4, 0}, {3, 1}, {3, 2}, {1, 3}});
    if (parts >= 1) s += ":" + *num_gen(0, 59);
    if (parts >= 2) s += ":" + *num_gen(0, 59);
    if (parts >= 3) s += ":" + *num_gen(0, 59);
    return s;
  });
}
static rc::Gen<std::string> date_gen() {
  return rc::gen::exec([]() -> std::string {
    int k = *vf::range<int>(0, g_valid_only ? 8 : 9);
    std::string s;
    if (k <= 4) s = "M" + *num_gen(1, 12) + "." + *num_gen(1, 5) + "." + *num_gen(0, 6);
    else if (k <= 6) s = "J" + *num_gen(1, 365);
    else if (k <= 8) s = *num_gen(0, 365);
    else s = *rc::gen::element<std::string>("M3", "M3.2", "M3.2.", "M.2.0", "J", "", "M3,2,0", "m3.2.0", "j60", "M3.2.0.1");
    int t = *vf::range<int>(0, g_valid_only ? 8 : 9);
    if (t <= 4) {}
    else if (t <= 8) s += "/" + *offset_gen(167);
    else s += *rc::gen::element<std::string>("/", "//2", "/2/", "/-", "/+");
    return s;
  });
}
static rc::Gen<std::string> sentence_gen() {
  return rc::gen::exec([]() -> std::string {
    g_valid_only = *vf::range<int>(0, 1) == 1;
    std::string s = *abbr_gen() + *offset_gen(24);
    int form = g_valid_only ? *rc::gen::weightedElement<int>({{2, 0}, {8, 1}}) : *rc::gen::weightedElement<int>({{2, 0}, {6, 1}, {1, 2}, {1, 3}, {1, 4}, {1, 5}});
    if (form == 0) return s;                                     // std only
    s += *abbr_gen();
    if (*vf::range<int>(0, 2) == 0) s += *offset_gen(24);
    if (form == 2) return s;                                     // dst without rules
    s += "," + *date_gen();
    if (form == 3) return s;                                     // one rule only
    s += "," + *date_gen();
    if (form == 4) s += "," + *date_gen();                       // extra field
    if (form == 5) s += *rc::gen::element<std::string>(" ", ",", "x", "\n", "/1", ",M1.1.1");
    return s;
  });
}
static std::string mutate(std::string s) {
  static const std::string alphabet = std::string("0123456789:,./+-<>MJ EDTest\n") + std::string(1, '\0') + "\xff";
  int kind = *vf::range<int>(0, 3);
  size_t pos = s.empty() ? 0 : *vf::index(s.size());
  char ch = alphabet[*vf::index(alphabet.size())];
  switch (kind) {
    case 0: if (!s.empty()) s[pos] = ch; break;
    case 1: s.insert(s.begin() + pos, ch); break;
    case 2: if (!s.empty()) s.erase(s.begin() + pos); break;
    default: {  // drop a whole comma-separated field
      size_t c = s.find(',', pos);
      if (c != std::string::npos) { size_t e = s.find(',', c + 1); s.erase(c, e == std::string::npos ? std::string::npos : e - c); }
    }
  }
  return s;
}

// The strings parsed most recently in this process are part of every case ("history_hex"): an answer that depends on
// earlier calls (a cache, a static buffer) is then reproducible from the case alone.
static std::vector<std::string> g_recent;
static void remember(const std::string& s) { g_recent.push_back(s); if (g_recent.size() > 3) g_recent.erase(g_recent.begin()); }
static std::string recent_hex() { std::string t; for (auto& h : g_recent) t += vf::hex(h) + ","; return t; }
static void replay_history(const vf::Case& c) {
  std::istringstream is(c.get("history_hex")); std::string tok, w;
  while (std::getline(is, tok, ',')) c16::oracle(vf::unhex(tok), &w);
}
// A, then a near miss B of A, then A again: the answer for A must not depend on what was parsed before it
static bool oracle_sequence(const std::string& a, const std::string& b, std::string* why) {
  if (!c16::oracle(a, why)) return false;
  std::string w2;
  if (!c16::oracle(b, &w2)) { *why = "second string of the sequence: " + w2; return false; }
  if (!c16::oracle(a, why)) { *why = "the same string parsed again after '" + vf::esc(b) + "': " + *why; return false; }
  return true;
}
static bool replay(const vf::Case& c, std::string* why) {
  replay_history(c);
  if (c.has("then_hex")) return oracle_sequence(vf::unhex(c.get("spec_hex")), vf::unhex(c.get("then_hex")), why);
  return c16::oracle(vf::unhex(c.get("spec_hex")), why);
}

static void run(const vf::Args& a, vf::Evidence& ev, vf::Reporter& rep) {
  EV = &ev;
  ev.rule = "rapidcheck: sentences from the POSIX-TZ grammar (abbreviation forms incl. <...>, too short, odd characters; offsets "
            "with 1-3 parts, signs, leading zeros, values at and just beyond 24/59/167; dates Jn/n/Mm.w.d at and beyond "
            "their bounds and truncated forms; with/without dst, dst offset, rules, extra or missing fields, trailing "
            "bytes), 0-2 single edits (replace/insert/delete/drop-field incl. NUL and 8-bit bytes), and random strings. "
            "A third of the accepted sentences are followed by a near miss and then parsed again (no state between calls); numbers that are in range only modulo 2^32 or 2^64. Oracle: acceptance and every field vs posixref; two calls with differently pre-filled result structs agree. "
            "Non-trivial = accepted by the grammar, or within one edit of a generated grammar sentence; distinct by content.";
  long budget = a.budget(60000, 1500000);
  vf::rc_run("C16.sentences", a.stream_seed(1), (int)budget, rep, [&]() {
    std::string s = *sentence_gen();
    int nmut = *rc::gen::weightedElement<int>({{5, 0}, {3, 1}, {1, 2}});
    for (int i = 0; i < nmut; ++i) s = mutate(s);
    if (*vf::range<int>(0, 30) == 0) s = *rc::gen::container<std::string>(rc::gen::arbitrary<char>());
    bool acc = false; std::string why;
    vf::Case c; c.set("spec_hex", vf::hex(s)); c.set("spec_printable", vf::esc(s)); c.set("history_hex", recent_hex());
    vf::CurrentScope cur([&]() { return c; });
    bool ok = c16::oracle(s, &why, &acc);
    remember(s);
    EV->eval();
    EV->cls(acc ? "grammar_accepts" : "grammar_rejects");
    if (acc) { px::Posix p; px::parse(s, &p); EV->cls(p.has_dst ? "accepted_with_dst_rules" : "accepted_std_only"); }
    if (nmut) EV->cls("mutated");
    if (acc || nmut <= 1) EV->nt(vf::fnv(s));
    if (EV->want_sample(acc ? "accepted" : "rejected")) EV->sample(acc ? "accepted" : "rejected", vf::esc(s));
    if (!ok) { rep.failing(c, why); RC_FAIL(why); }
    if (acc && *vf::range<int>(0, 2) == 0) {
      // call history: a near miss of the accepted sentence (a dropped field, a truncated rule ...) is parsed next, then the
      // sentence again
      std::string b = mutate(s);
      if (*vf::range<int>(0, 1)) b = s.substr(0, s.size() - std::min<size_t>(s.size(), (size_t)*vf::range<int>(1, 6)));
      vf::Case c2; c2.set("history_hex", recent_hex()); c2.set("spec_hex", vf::hex(s)); c2.set("then_hex", vf::hex(b)); c2.set("spec_printable", vf::esc(s)); c2.set("then_printable", vf::esc(b));
      vf::CurrentScope cur2([&]() { return c2; });
      EV->eval(2); EV->cls("sentence_then_near_miss_then_sentence_again");
      std::string why2;
      const bool ok2 = oracle_sequence(s, b, &why2);
      remember(b); remember(s);
      if (!ok2) { rep.failing(c2, why2); RC_FAIL(why2); }
    }
  });
}

int main(int argc, char** argv) { return vf::main_dispatch(argc, argv, "C16", run, replay); }
