// C04: civil-time construction normalizes exactly; alignment conversions only
// truncate.  Oracle: refcal (128-bit).  UBSan makes intermediate overflow
// visible.
#include "civil_util.h"
#include "common.h"
#include "rcutil.h"

using cu::Civil;
using vf::i128;
static vf::Evidence* E;

struct In { int64_t y, m, d, hh, mm, ss; };

static vf::Case to_case(const In& in) {
  vf::Case c;
  c.set("y", in.y).set("m", in.m).set("d", in.d).set("hh", in.hh).set("mm", in.mm).set("ss", in.ss);
  return c;
}
static In from_case(const vf::Case& c) {
  return In{(int64_t)c.num("y"), (int64_t)c.num("m"), (int64_t)c.num("d"),
            (int64_t)c.num("hh"), (int64_t)c.num("mm"), (int64_t)c.num("ss")};
}

static bool admissible(const In& in) {
  if (!refcal::fits64(refcal::year_after_month_carry(in.y, in.m))) return false;
  return refcal::fits64(refcal::normalize(in.y, in.m, in.d, in.hh, in.mm, in.ss).y);
}

static std::string show(const Civil& c) { return refcal::str(c); }

// The whole oracle for one admissible input.  Returns true if everything agrees.
static bool check_one(const In& in, std::string* why, bool with_text = true) {
  const Civil full = refcal::normalize(in.y, in.m, in.d, in.hh, in.mm, in.ss);
  for (int a = 0; a < 6; ++a) {
    const Civil exp = cu::trunc_to(full, a);
    bool ok = cu::with_align(a, [&](auto tag) -> bool {
      using T = decltype(tag);
      const T t(in.y, in.m, in.d, in.hh, in.mm, in.ss);
      const Civil got = cu::fields_of(t);
      if (got != exp) {
        *why = std::string("civil_") + cu::align_name(a) + " constructed " + show(got) + ", expected " + show(exp);
        return false;
      }
      if (got.m < 1 || got.m > 12 || got.d < 1 || got.d > refcal::days_in_month(got.y, got.m) ||
          got.hh < 0 || got.hh > 23 || got.mm < 0 || got.mm > 59 || got.ss < 0 || got.ss > 59) {
        *why = std::string("accessor out of range for civil_") + cu::align_name(a) + ": " + show(got);
        return false;
      }
      if (with_text && cu::text_of(t) != cu::ref_text(exp, a)) {
        *why = std::string("operator<< of civil_") + cu::align_name(a) + " printed '" + cu::text_of(t) +
               "', expected '" + cu::ref_text(exp, a) + "'";
        return false;
      }
      // conversions from this alignment to every other one: truncation only
      for (int b = 0; b < 6; ++b) {
        const Civil expb = cu::trunc_to(exp, b);
        bool okb = cu::with_align(b, [&](auto tagb) -> bool {
          using U = decltype(tagb);
          const U u(t);  // explicit or implicit converting constructor
          const Civil gb = cu::fields_of(u);
          if (gb != expb) {
            *why = std::string("conversion civil_") + cu::align_name(a) + " -> civil_" + cu::align_name(b) +
                   " gave " + show(gb) + ", expected " + show(expb);
            return false;
          }
          return true;
        });
        if (!okb) return false;
      }
      return true;
    });
    if (!ok) return false;
  }
  return true;
}

static bool replay(const vf::Case& c, std::string* why) {
  In in = from_case(c);
  if (!admissible(in)) { *why = "inadmissible input (outside the property's domain)"; return true; }
  return check_one(in, why);
}

// ---- generators -----------------------------------------------------------
static rc::Gen<int64_t> field_gen(int which /*1=m 2=d 3=hh 4=mm 5=ss*/) {
  int64_t lo = (which == 1 || which == 2) ? 1 : 0;
  int64_t hi = which == 1 ? 12 : which == 2 ? 28 : which == 3 ? 23 : 59;
  int64_t unit = which == 1 ? 12 : which == 2 ? 146097 : which == 3 ? 24 : 60;
  return rc::gen::oneOf(
      vf::range<int64_t>(lo, hi),
      rc::gen::element<int64_t>(-1, 0, 1, 12, 13, 23, 24, 25, 28, 29, 30, 31, 32, 59, 60, 61, 365, 366, 367,
                                -12, -13, -24, -59, -60, -61, -365, -366, 36524, 36525, 146097, -146097,
                                146098, 1461, 1460, 86400, -86400, 86399),
      // multiples of the carry unit and their neighbours (carry boundaries)
      rc::gen::map(rc::gen::tuple(vf::range<int64_t>(-40, 40), vf::range<int64_t>(-1, 1)),
                   [unit](const std::tuple<int64_t, int64_t>& t) { return std::get<0>(t) * unit + std::get<1>(t); }),
      vf::edge_i64(),
      vf::range<int64_t>(-100000, 100000));
}

// year chosen last, inside the admissible interval [lo, hi] computed exactly
static bool year_interval(const In& in, i128* lo, i128* hi) {
  auto F = [&](i128 y) { return refcal::normalize(y, in.m, in.d, in.hh, in.mm, in.ss).y; };
  auto A = [&](i128 y) { return refcal::year_after_month_carry(y, in.m); };
  auto ok_lo = [&](i128 y) { return A(y) >= refcal::kI64Min && F(y) >= refcal::kI64Min; };
  auto ok_hi = [&](i128 y) { return A(y) <= refcal::kI64Max && F(y) <= refcal::kI64Max; };
  // smallest y with ok_lo (monotone), largest y with ok_hi (monotone)
  i128 a = refcal::kI64Min, b = refcal::kI64Max;
  if (!ok_lo(b) || !ok_hi(a)) return false;
  i128 l = a, h = b;
  while (l < h) { i128 mid = l + (h - l) / 2; if (ok_lo(mid)) h = mid; else l = mid + 1; }
  *lo = l;
  l = a; h = b;
  while (l < h) { i128 mid = l + (h - l + 1) / 2; if (ok_hi(mid)) l = mid; else h = mid - 1; }
  *hi = l;
  return *lo <= *hi;
}

static void run(const vf::Args& a, vf::Evidence& ev, vf::Reporter& rep) {
  vf::History::enabled() = true;  // failing cases carry the cases that ran just before them (state between calls)
  E = &ev;
  ev.rule = "rapidcheck: six int64 fields from a mixture (in-range, just outside, multiples of the carry unit +-1, "
            "+-2^k+-d, int64 extremes, uniform); the year is drawn last inside the exactly computed admissible "
            "interval (edges included). Each case constructs all six civil types, all 36 alignment conversions and "
            "operator<<. Plus an exhaustive base: every day of a 400-year window reached by day-offset, negative "
            "day-offset and hour-offset normalization. Non-trivial = some field needs a carry or |year| > 2^40; "
            "distinct by the six inputs.";
  // exhaustive base (sharded by era)
  std::vector<int64_t> eras = {1600, 2000, -400, 0, 400000000000LL, -8000};
  size_t n_eras = a.thorough() ? eras.size() : 2;
  for (size_t e = 0; e < n_eras; ++e) {
    if ((int)(e % a.nshards) != a.shard) continue;
    const int64_t Y = eras[e];
    In curin{Y, 1, 1, 0, 0, 0};
    vf::CurrentScope cur([&]() { return to_case(curin); });
    for (int64_t k = 0; k < 146097; ++k) {
      In forms[3] = {In{Y, 1, 1 + k, 0, 0, 0}, In{Y + 400, 1, 1 - (146097 - k), 0, 0, 0}, In{Y, 1, 1, 24 * k, 0, 0}};
      for (auto& in : forms) {
        curin = in;
        std::string why;
        ev.eval();
        ev.nt(vf::fnv(&in, sizeof in));
        if (!check_one(in, &why, k % 16 == 0)) {
          rep.failing(to_case(in), why); rep.commit();
          k = 146097; break;
        }
      }
    }
    ev.cls("exhaustive_era");
    ev.sample("exhaustive", "era starting " + vf::i64_str(Y) + ": all 146097 days via (Y,1,1+k), (Y+400,1,1-k'), (Y,1,1,24k)");
  }

  long n = a.budget(60000, 1000000);
  vf::rc_run("C04.normalize", a.stream_seed(1), (int)n, rep, [&]() {
    In in{0, 0, 0, 0, 0, 0};
    in.m = *field_gen(1); in.d = *field_gen(2); in.hh = *field_gen(3);
    in.mm = *field_gen(4); in.ss = *field_gen(5);
    i128 lo, hi;
    if (!year_interval(in, &lo, &hi)) { ev.cls("discard_no_admissible_year"); RC_DISCARD("no admissible year"); }
    int style = *vf::range<int>(0, 5);
    i128 y;
    switch (style) {
      case 0: y = 1970 + *vf::range<int64_t>(-3000, 3000); break;
      case 1: y = lo + *vf::range<int64_t>(0, 3); break;
      case 2: y = hi - *vf::range<int64_t>(0, 3); break;
      case 3: y = *vf::edge_i64(); break;
      case 4: { // uniform inside [lo,hi]
        unsigned __int128 span1 = (unsigned __int128)(hi - lo) + 1;
        uint64_t r = *rc::gen::resize(100, rc::gen::arbitrary<uint64_t>());
        y = lo + (i128)((unsigned __int128)r % span1);
        break;
      }
      default: y = *vf::range<int64_t>(-400, 400) * 400 + *vf::range<int64_t>(-1, 1); break;
    }
    if (y < lo) y = lo;
    if (y > hi) y = hi;
    in.y = (int64_t)y;
    RC_ASSERT(admissible(in));  // generator soundness (harness invariant)
    const char* cls = style == 1 ? "year_at_low_edge" : style == 2 ? "year_at_high_edge" : style == 0 ? "year_modern"
                      : style == 3 ? "year_edge_i64" : style == 4 ? "year_uniform" : "year_multiple_of_400";
    ev.cls(cls);
    bool carry = !(in.m >= 1 && in.m <= 12 && in.d >= 1 && in.d <= 28 && in.hh >= 0 && in.hh <= 23 &&
                   in.mm >= 0 && in.mm <= 59 && in.ss >= 0 && in.ss <= 59);
    bool bigyear = in.y > (1LL << 40) || in.y < -(1LL << 40);
    if (carry) ev.cls("needs_carry");
    if (bigyear) ev.cls("big_year");
    if (carry || bigyear) ev.nt(vf::fnv(&in, sizeof in));
    ev.eval();
    if (ev.want_sample(cls)) {
      Civil n = refcal::normalize(in.y, in.m, in.d, in.hh, in.mm, in.ss);
      ev.sample(cls, "(" + vf::i64_str(in.y) + "," + vf::i64_str(in.m) + "," + vf::i64_str(in.d) + "," +
                         vf::i64_str(in.hh) + "," + vf::i64_str(in.mm) + "," + vf::i64_str(in.ss) + ") -> " + show(n));
    }
    vf::CurrentScope cur([&]() { return to_case(in); });
    std::string why;
    if (!check_one(in, &why)) {
      rep.failing(to_case(in), why);
      RC_FAIL(why);
    }
  });
}

int main(int argc, char** argv) { return vf::main_dispatch(argc, argv, "C04", run, replay); }
