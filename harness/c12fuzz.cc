// libFuzzer target for C12: arbitrary bytes offered as zone data.
#include "c12_core.h"
#include "fuzzutil.h"

static int g_public = 0;  // the public name cache never frees a zone: bound the number of such loads per process
extern "C" int LLVMFuzzerTestOneInput(const uint8_t* data, size_t size) {
  std::string bytes((const char*)data, size);
  fz::Stats& st = fz::Stats::get();
  st.ev.eval();
  std::string why, cls;
  const uint64_t h = vf::fnv(bytes);
  static const uint64_t every = getenv("C12_PUBLIC_EVERY") ? strtoull(getenv("C12_PUBLIC_EVERY"), nullptr, 10) : 512;
  if (!c12::oracle(bytes, &why, &cls, every && (h % every) == 0 && ++g_public < 200)) fz::fail(why);
  st.ev.cls(cls);
  if (size >= 44 && memcmp(data, "TZif", 4) == 0) st.ev.nt(h);  // reaches header/data decoding
  if (cls == "loaded" && st.ev.want_sample("fuzz_loaded")) st.ev.sample("fuzz_loaded", std::to_string(size) + " bytes: " + vf::hex(bytes.substr(0, 48)) + "...");
  return 0;
}
