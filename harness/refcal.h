// refcal: proleptic Gregorian calendar in 128-bit arithmetic.  Written from the
// calendar's definition (400-year era algorithm); includes no cctz header.
#pragma once
#include <cstdint>
#include "common.h"

namespace refcal {
using vf::i128;

inline i128 fdiv(i128 a, i128 b) {  // floor division, b > 0
  i128 q = a / b, r = a % b;
  return (r != 0 && ((r < 0) != (b < 0))) ? q - 1 : q;
}
inline i128 fmod(i128 a, i128 b) { return a - fdiv(a, b) * b; }

inline bool is_leap(i128 y) {
  return fmod(y, 4) == 0 && (fmod(y, 100) != 0 || fmod(y, 400) == 0);
}
inline int days_in_month(i128 y, int m) {
  static const int k[13] = {0, 31, 28, 31, 30, 31, 30, 31, 31, 30, 31, 30, 31};
  return k[m] + (m == 2 && is_leap(y));
}
inline int days_in_year(i128 y) { return is_leap(y) ? 366 : 365; }

// days since 1970-01-01 of y-m-d (m in 1..12, d arbitrary small offset ok)
inline i128 days_from_civil(i128 y, int m, i128 d) {
  y -= m <= 2;
  const i128 era = fdiv(y, 400);
  const i128 yoe = y - era * 400;                                  // [0, 399]
  const i128 doy = (153 * (m + (m > 2 ? -3 : 9)) + 2) / 5 + d - 1;  // [0, 365]
  const i128 doe = yoe * 365 + yoe / 4 - yoe / 100 + doy;
  return era * 146097 + doe - 719468;
}

struct Civil {
  i128 y; int m, d, hh, mm, ss;
  bool operator==(const Civil& o) const {
    return y == o.y && m == o.m && d == o.d && hh == o.hh && mm == o.mm && ss == o.ss;
  }
  bool operator!=(const Civil& o) const { return !(*this == o); }
  bool operator<(const Civil& o) const {
    if (y != o.y) return y < o.y;
    if (m != o.m) return m < o.m;
    if (d != o.d) return d < o.d;
    if (hh != o.hh) return hh < o.hh;
    if (mm != o.mm) return mm < o.mm;
    return ss < o.ss;
  }
};

inline void civil_from_days(i128 z, i128* y, int* m, int* d) {
  z += 719468;
  const i128 era = fdiv(z, 146097);
  const i128 doe = z - era * 146097;                                       // [0, 146096]
  const i128 yoe = (doe - doe / 1460 + doe / 36524 - doe / 146096) / 365;  // [0, 399]
  i128 yy = yoe + era * 400;
  const i128 doy = doe - (365 * yoe + yoe / 4 - yoe / 100);  // [0, 365]
  const i128 mp = (5 * doy + 2) / 153;                       // [0, 11]
  *d = (int)(doy - (153 * mp + 2) / 5 + 1);
  *m = (int)(mp < 10 ? mp + 3 : mp - 9);
  *y = yy + (*m <= 2);
}

// seconds since 1970-01-01T00:00:00 of a (normalized) civil time
inline i128 to_secs(const Civil& c) {
  return days_from_civil(c.y, c.m, c.d) * 86400 + c.hh * 3600 + c.mm * 60 + c.ss;
}
inline Civil from_secs(i128 s) {
  Civil c;
  i128 days = fdiv(s, 86400);
  i128 rem = s - days * 86400;
  civil_from_days(days, &c.y, &c.m, &c.d);
  c.hh = (int)(rem / 3600); c.mm = (int)((rem % 3600) / 60); c.ss = (int)(rem % 60);
  return c;
}

// Normalization as documented in civil_time.h: months carry into the year
// first, then days are counted from the first of that month, then h/m/s.
inline Civil normalize(i128 y, i128 m, i128 d, i128 hh, i128 mm, i128 ss) {
  i128 ym = fdiv(m - 1, 12);
  int mon = (int)fmod(m - 1, 12) + 1;
  i128 base = days_from_civil(y + ym, mon, 1) * 86400;
  return from_secs(base + (d - 1) * 86400 + hh * 3600 + mm * 60 + ss);
}
// year after the month carry alone
inline i128 year_after_month_carry(i128 y, i128 m) { return y + fdiv(m - 1, 12); }

// Monday=0 ... Sunday=6 ; 1970-01-01 (day 0) is a Thursday (3)
inline int weekday_mon0(i128 days) { return (int)fmod(days + 3, 7); }
inline int yearday(i128 y, int m, int d) {
  return (int)(days_from_civil(y, m, d) - days_from_civil(y, 1, 1)) + 1;
}

inline std::string str(const Civil& c) {
  char buf[64];
  snprintf(buf, sizeof buf, "-%02d-%02dT%02d:%02d:%02d", c.m, c.d, c.hh, c.mm, c.ss);
  return vf::i128_str(c.y) + buf;
}

const i128 kI64Min = (i128)INT64_MIN;
const i128 kI64Max = (i128)INT64_MAX;
inline int64_t clamp64(i128 v) {
  return v < kI64Min ? INT64_MIN : v > kI64Max ? INT64_MAX : (int64_t)v;
}
inline bool fits64(i128 v) { return v >= kI64Min && v <= kI64Max; }

}  // namespace refcal
