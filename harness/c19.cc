// C19: zone names resolve as documented and failures always fall back to UTC.
// Exhaustive environment matrix: TZDIR x TZ x LOCALTIME x names; every cell is
// executed in a forked child (the environment and the name cache are process-
// global) and compared with a model of the documented resolution that reads the
// resolved file with the independent TZif reader.
#include <sys/stat.h>
#include <sys/wait.h>
#include <unistd.h>
#include "cctz/time_zone.h"
#include "common.h"
#include "zonemodel.h"

using vf::i128;

struct Env { int tzdir, tz, localtime; };  // indices into the value tables
static std::string g_fix;                  // fixture directory

static const char* kUnset = "\x01unset";
static std::vector<std::string> tzdir_values() { return {kUnset, "", g_fix + "/zoneinfo", g_fix + "/nonexistent"}; }
static std::vector<std::string> tz_values() { return {kUnset, "", "Test/Valid", ":Test/Valid", "localtime", ":localtime", "Invalid/Zone", "::Test/Valid", ":" + g_fix + "/zoneinfo/Test/Other",
          // look-alikes of the keyword: ordinary zone names (the first two exist under the fixture TZDIR)
          "localtime.bak", ":localtime/Paris", "localtimes", "Localtime", "localtim", "UTC", "Fixed/UTC+01:60:00"}; }
static std::vector<std::string> localtime_values() { return {kUnset, g_fix + "/localtime_file", g_fix + "/missing_localtime", "", ":" + g_fix + "/localtime_file"}; }
static std::vector<std::string> name_values() {
  return {"Test/Valid", g_fix + "/zoneinfo/Test/Valid", "file:Test/Valid", "file:" + g_fix + "/zoneinfo/Test/Other", "", "Test/Dir", "Test/Unreadable",
          "Test/Truncated", "Test/Leap", "Test/LeapSlim", ":Test/Valid", "UTC", "UTC0", "Fixed/UTC+01:00:00", "Fixed/UTC+01:60:00", "Fixed/UTC-23:59:60", "Fixed/UTC+24:00:01", "Fixed/UTC+00:00:00", "Test/Missing", "file:", "Test//Valid", "./Test/Valid", "Test/Other"};
}

static void apply_env(const char* var, const std::string& v) { if (v == kUnset) unsetenv(var); else setenv(var, v.c_str(), 1); }

static const int64_t kProbe[] = {0, 1000000000, 1700000000, -1000000000, 1720000000, 4102444800LL};

static std::string fingerprint(const cctz::time_zone& tz) {
  std::string s;
  for (int64_t t : kProbe) {
    auto al = tz.lookup(std::chrono::time_point_cast<cctz::seconds>(std::chrono::system_clock::from_time_t(0)) + cctz::seconds(t));
    s += std::to_string(al.offset) + (al.is_dst ? "d" : "s") + al.abbr + ",";
  }
  return s;
}
static std::string model_fingerprint(const zm::Model& m) {
  std::string s;
  for (int64_t t : kProbe) { zm::LT lt = m.type_at(t); s += std::to_string(lt.utoff) + (lt.isdst ? "d" : "s") + lt.abbr + ","; }
  return s;
}

// ---- the documented resolution ---------------------------------------------------------------
struct Expect { bool ok; std::string name; std::string fp; std::string path; };
static const std::string kUtcFp = "0sUTC,0sUTC,0sUTC,0sUTC,0sUTC,0sUTC,";

static Expect expect_load(const std::string& name, const std::string& tzdir) {
  Expect e{false, "UTC", kUtcFp, ""};
  if (name == "UTC" || name == "UTC0") { e.ok = true; return e; }
  if (name.size() == 18 && name.compare(0, 9, "Fixed/UTC") == 0 && (name[9] == '+' || name[9] == '-') && name[12] == ':' && name[15] == ':') {
    // fixed-offset name: 'Fixed/UTC+-hh:mm:ss', two digits each (not range-checked individually), total at most 24 h
    bool digits = true;
    for (int i : {10, 11, 13, 14, 16, 17}) digits = digits && name[i] >= '0' && name[i] <= '9';
    auto two = [&](int i) { return (name[i] - '0') * 10 + (name[i + 1] - '0'); };
    const long total = digits ? two(10) * 3600L + two(13) * 60L + two(16) : 0;
    if (digits && total <= 86400) {
      const long off = name[9] == '-' ? -total : total;
      e.ok = true;
      if (off == 0) return e;  // UTC itself
      e.name = name;
      char ab[16]; const long m = total / 60 % 60, sec = total % 60;
      int n = snprintf(ab, sizeof ab, "%c%02ld", off < 0 ? '-' : '+', total / 3600);
      if (m || sec) n += snprintf(ab + n, sizeof ab - n, "%02ld", m);
      if (sec) snprintf(ab + n, sizeof ab - n, "%02ld", sec);
      e.fp.clear();
      for (size_t i = 0; i < sizeof kProbe / sizeof kProbe[0]; ++i) e.fp += std::to_string(off) + "s" + ab + ",";
      return e;
    }
  }
  std::string rest = name.compare(0, 5, "file:") == 0 ? name.substr(5) : name;
  std::string path;
  if (!rest.empty() && rest[0] == '/') path = rest;
  else path = ((tzdir != kUnset && !tzdir.empty()) ? tzdir : std::string("/usr/share/zoneinfo")) + "/" + rest;
  e.path = path;
  struct stat st;
  if (stat(path.c_str(), &st) != 0 || !S_ISREG(st.st_mode)) return e;
  bool readable = false;
  const std::string bytes = vf::read_file(path, &readable);
  if (!readable) return e;
  const zm::Model m = zm::Model::build(zm::read_tzif(bytes));
  if (!m.in_domain()) return e;  // truncated, leap-second ("right") data, unparsable footer ...
  e.ok = true; e.name = name; e.fp = model_fingerprint(m);
  return e;
}
static Expect expect_local(const std::string& tz, const std::string& lt, const std::string& tzdir, std::string* resolved) {
  std::string z = tz == kUnset ? ":localtime" : tz;
  if (!z.empty() && z[0] == ':') z = z.substr(1);
  if (z == "localtime") z = lt == kUnset ? "/etc/localtime" : lt;
  *resolved = z;
  return expect_load(z, tzdir);
}

// ---- child execution ------------------------------------------------------------------------------
// what: "load" (name given) or "local"
static std::string in_child(const std::string& what, const std::string& name, const std::string& tzdir, const std::string& tz, const std::string& lt) {
  int fd[2];
  if (pipe(fd) != 0) return "HARNESS pipe";
  fflush(nullptr);
  pid_t pid = fork();
  if (pid == 0) {
    close(fd[0]);
    alarm(20);
    apply_env("TZDIR", tzdir); apply_env("TZ", tz); apply_env("LOCALTIME", lt);
    std::string out;
    cctz::time_zone dflt;
    if (dflt != cctz::utc_time_zone()) out += "DEFAULT-NOT-UTC ";
    if (what == "load") {
      cctz::time_zone z;
      const bool ok = cctz::load_time_zone(name, &z);
      out += std::string(ok ? "1" : "0") + "|" + z.name() + "|" + fingerprint(z) + "|" + (z == cctz::utc_time_zone() ? "utc" : "other");
      // a second load answers the same
      cctz::time_zone z2; const bool ok2 = cctz::load_time_zone(name, &z2);
      if (ok2 != ok || z2 != z) out += "|REPEAT-DIFFERS";
    } else if (what == "load2") {
      // two spellings of names loaded one after the other in ONE process: each must report the name it was asked for
      const size_t bar = name.find('|');
      for (const std::string& n : {name.substr(0, bar), name.substr(bar + 1)}) {
        cctz::time_zone z;
        const bool ok = cctz::load_time_zone(n, &z);
        out += std::string(ok ? "1" : "0") + "|" + z.name() + "|" + fingerprint(z) + "|" + (z == cctz::utc_time_zone() ? "utc" : "other") + "#";
      }
    } else if (what == "load2env") {
      // the environment changes between two loads in ONE process: each load follows the environment of its own moment
      const size_t bar = name.find('|');
      int k = 0;
      for (const std::string& n : {name.substr(0, bar), name.substr(bar + 1)}) {
        if (k++ == 1) apply_env("TZDIR", tz);  // 'tz' carries the second TZDIR value for this kind of cell
        cctz::time_zone z;
        const bool ok = cctz::load_time_zone(n, &z);
        out += std::string(ok ? "1" : "0") + "|" + z.name() + "|" + fingerprint(z) + "|" + (z == cctz::utc_time_zone() ? "utc" : "other") + "#";
      }
    } else if (what == "local2") {
      // local_time_zone() twice, with TZ / LOCALTIME changed in between ('name' carries "TZ2|LOCALTIME2")
      const size_t bar = name.find('|');
      for (int k = 0; k < 2; ++k) {
        if (k == 1) { apply_env("TZ", name.substr(0, bar)); apply_env("LOCALTIME", name.substr(bar + 1)); }
        const cctz::time_zone z = cctz::local_time_zone();
        out += "1|" + z.name() + "|" + fingerprint(z) + "|" + (z == cctz::utc_time_zone() ? "utc" : "other") + "#";
      }
    } else {
      const cctz::time_zone z = cctz::local_time_zone();
      out += "1|" + z.name() + "|" + fingerprint(z) + "|" + (z == cctz::utc_time_zone() ? "utc" : "other");
    }
    (void)!write(fd[1], out.data(), out.size());
    _exit(0);
  }
  close(fd[1]);
  std::string out; char buf[512]; ssize_t n;
  while ((n = read(fd[0], buf, sizeof buf)) > 0) out.append(buf, n);
  close(fd[0]);
  int st = 0; waitpid(pid, &st, 0);
  if (out.empty()) return "HARNESS child died (status " + std::to_string(st) + ")";
  return out;
}

static bool compare(const std::string& got, const Expect& e, bool is_local, std::string* why) {
  if (got.compare(0, 7, "HARNESS") == 0 || got.find("DEFAULT-NOT-UTC") != std::string::npos || got.find("REPEAT-DIFFERS") != std::string::npos) { *why = got; return false; }
  std::vector<std::string> f; { std::istringstream is(got); std::string t; while (std::getline(is, t, '|')) f.push_back(t); }
  if (f.size() < 4) { *why = "unparsable child answer: " + got; return false; }
  const bool ok = f[0] == "1";
  if (!is_local && ok != e.ok) { *why = std::string("load returned ") + (ok ? "true" : "false") + ", documented resolution (file " + e.path + ") says " + (e.ok ? "true" : "false"); return false; }
  if (f[1] != e.name) { *why = "name() = '" + f[1] + "', expected '" + e.name + "'"; return false; }
  if (f[2] != e.fp) { *why = "zone behaves as [" + f[2] + "], expected [" + e.fp + "] (file " + e.path + ")"; return false; }
  const bool should_be_utc = !e.ok || e.name == "UTC";
  if ((f[3] == "utc") != should_be_utc) { *why = std::string("equality with utc_time_zone() is ") + f[3] + (should_be_utc ? ", expected UTC" : ", expected a distinct zone"); return false; }
  return true;
}

// ---- fixture -------------------------------------------------------------------------------------
static void build_fixture(const std::string& dir) {
  g_fix = dir;
  const char* d = getenv("VERIF_REPO");
  const std::string zi = std::string(d ? d : "/repo") + "/testdata/zoneinfo";
  auto cp = [&](const std::string& from, const std::string& to) { vf::write_file(to, vf::read_file(from)); };
  mkdir(dir.c_str(), 0777); mkdir((dir + "/zoneinfo").c_str(), 0777); mkdir((dir + "/zoneinfo/Test").c_str(), 0777); mkdir((dir + "/zoneinfo/Test/Dir").c_str(), 0777);
  cp(zi + "/America/New_York", dir + "/zoneinfo/Test/Valid");
  cp(zi + "/Europe/London", dir + "/zoneinfo/Test/Other");
  cp(zi + "/Asia/Tokyo", dir + "/localtime_file");
  cp(zi + "/Europe/Paris", dir + "/localtime_file2");
  mkdir((dir + "/zoneinfo2").c_str(), 0777); mkdir((dir + "/zoneinfo2/Test").c_str(), 0777);
  cp(zi + "/Asia/Tokyo", dir + "/zoneinfo2/Test/Other");      // the same relative name means another zone under the second TZDIR
  cp(zi + "/Asia/Kolkata", dir + "/zoneinfo2/Test/Only2");    // and this one exists only there
  cp(zi + "/Australia/Sydney", dir + "/zoneinfo/localtime");  // a decoy: TZ=localtime must NOT resolve relative to TZDIR
  cp(zi + "/Asia/Kolkata", dir + "/zoneinfo/localtime.bak");   // and names that merely begin with the keyword are ordinary names
  vf::write_file(dir + "/zoneinfo/Test/Truncated", vf::read_file(zi + "/America/New_York").substr(0, 700));
  cp(zi + "/Asia/Kolkata", dir + "/zoneinfo/Test/Unreadable"); chmod((dir + "/zoneinfo/Test/Unreadable").c_str(), 0);
  // leap-second ("right") data: take a valid file and declare one leap-second record in both blocks
  {
    std::string b = vf::read_file(zi + "/Asia/Kolkata");
    zm::detail::Hdr h1; zm::detail::read_hdr(b, 0, &h1);
    const size_t len1 = zm::detail::block_len(h1, 4);
    zm::detail::Hdr h2; zm::detail::read_hdr(b, 44 + len1, &h2);
    auto set32 = [&](size_t off, uint32_t v) { for (int i = 0; i < 4; ++i) b[off + i] = (char)(v >> (8 * (3 - i))); };
    // insert the 64-bit block's leap record (8-byte time + 4-byte correction) after its abbreviation characters
    const size_t h2off = 44 + len1;
    const size_t leap2 = h2off + 44 + (size_t)h2.timecnt * 9 + (size_t)h2.typecnt * 6 + h2.charcnt;
    std::string rec2(12, '\0'); rec2[4] = 0x04; rec2[5] = (char)0xb2; rec2[6] = 0x58; rec2[7] = 0x00; rec2[11] = 1;  // 1972-07-01, +1
    b.insert(leap2, rec2); set32(h2off + 28, 1);
    // what "zic -b slim -L leapseconds" writes: leap records only in the 64-bit block, the 32-bit block is an empty stub
    vf::write_file(dir + "/zoneinfo/Test/LeapSlim", b);
    const size_t leap1 = 44 + (size_t)h1.timecnt * 5 + (size_t)h1.typecnt * 6 + h1.charcnt;
    std::string rec1(8, '\0'); rec1[0] = 0x04; rec1[1] = (char)0xb2; rec1[2] = 0x58; rec1[7] = 1;
    b.insert(leap1, rec1); set32(28, 1);
    vf::write_file(dir + "/zoneinfo/Test/Leap", b);
  }
}

static bool run_cell(const std::string& what, const std::string& name, const std::string& tzdir, const std::string& tz, const std::string& lt, std::string* why, std::string* resolved) {
  if (what == "load2") {
    const size_t bar = name.find('|');
    const std::string got = in_child(what, name, tzdir, tz, lt);
    std::vector<std::string> parts; { std::istringstream is(got); std::string t; while (std::getline(is, t, '#')) parts.push_back(t); }
    const std::string names[2] = {name.substr(0, bar), name.substr(bar + 1)};
    if (parts.size() < 2) { *why = "unparsable child answer: " + got; return false; }
    for (int k = 0; k < 2; ++k) {
      const Expect e = expect_load(names[k], tzdir);
      *resolved = e.path;
      std::string w;
      if (!compare(parts[k], e, false, &w)) { *why = "load #" + std::to_string(k + 1) + " ('" + names[k] + "'): " + w + " [child answered: " + got + "]"; return false; }
    }
    return true;
  }
  if (what == "load2env" || what == "local2") {
    const size_t bar = name.find('|');
    const std::string got = in_child(what, name, tzdir, tz, lt);
    std::vector<std::string> parts; { std::istringstream is(got); std::string t; while (std::getline(is, t, '#')) parts.push_back(t); }
    if (parts.size() < 2) { *why = "unparsable child answer: " + got; return false; }
    for (int k = 0; k < 2; ++k) {
      Expect e;
      if (what == "load2env") e = expect_load(k == 0 ? name.substr(0, bar) : name.substr(bar + 1), k == 0 ? tzdir : tz);
      else e = k == 0 ? expect_local(tz, lt, tzdir, resolved) : expect_local(name.substr(0, bar), name.substr(bar + 1), tzdir, resolved);
      if (what == "load2env") *resolved = e.path;
      std::string w;
      if (!compare(parts[k], e, what == "local2", &w)) { *why = std::string(what == "load2env" ? "load" : "local_time_zone()") + " #" + std::to_string(k + 1) + (k ? " (after the environment changed)" : "") + ": " + w + " [child answered: " + got + "]"; return false; }
    }
    return true;
  }
  Expect e;
  if (what == "load") { e = expect_load(name, tzdir); *resolved = e.path; }
  else e = expect_local(tz, lt, tzdir, resolved);
  const std::string got = in_child(what, name, tzdir, tz, lt);
  if (!compare(got, e, what != "load", why)) { *why += " [child answered: " + got + "]"; return false; }
  return true;
}

static std::string show(const std::string& v) { return v == kUnset ? "(unset)" : "'" + v + "'"; }

static bool replay(const vf::Case& c, std::string* why) {
  const char* vd = getenv("VERIF_DIR");
  std::string dir = std::string(vd ? vd : "/verif") + "/build/work/c19-replay-" + std::to_string((long)getpid());
  build_fixture(dir);
  auto sub = [&](std::string v) { size_t p; while ((p = v.find("$FIX")) != std::string::npos) v.replace(p, 4, g_fix); return v == "(unset)" ? std::string(kUnset) : v; };
  std::string resolved;
  bool ok = run_cell(c.get("what"), sub(c.get("name")), sub(c.get("TZDIR")), sub(c.get("TZ")), sub(c.get("LOCALTIME")), why, &resolved);
  std::string cmd = "chmod -R u+rwx " + dir + " 2>/dev/null; rm -rf " + dir; (void)!system(cmd.c_str());
  return ok;
}

static void run(const vf::Args& a, vf::Evidence& ev, vf::Reporter& rep) {
  ev.rule = "exhaustive environment matrix, each cell in a forked child: load_time_zone over TZDIR in {unset, empty, fixture, "
            "nonexistent} x 23 names (relative, absolute, file:-prefixed relative/absolute, empty, directory, unreadable, truncated, "
            "leap-second data (fat and slim layout), ':'-prefixed, UTC, UTC0, fixed, missing, 'file:' alone, doubled slash, ./ prefix, non-canonical fixed-offset spellings) plus 11 pairs of spellings loaded one after the other in one process, plus two loads / two local_time_zone() calls with "
            "TZDIR / TZ / LOCALTIME changed in between (each call follows the environment of its own moment); local_time_zone "
            "over TZDIR (4) x TZ {unset, empty, X, :X, localtime, :localtime, invalid, ::X, :/abs, five look-alikes of the keyword such as 'localtime.bak', UTC, a fixed-offset spelling} x LOCALTIME {unset, valid, "
            "missing, empty, ':'-prefixed}. Oracle: documented resolution -> path -> independent TZif reader -> expected success, "
            "name(), lookup fingerprint, equality with utc_time_zone(); default-constructed zone == UTC; a repeated load answers "
            "the same. Non-trivial = a variable or prefix changes the resolved path; distinct by cell.";
  build_fixture((a.workdir.empty() ? std::string("/tmp") : a.workdir) + "/c19-fixture-" + std::to_string(a.shard));
  auto unfix = [&](std::string v) { size_t p; while ((p = v.find(g_fix)) != std::string::npos) v.replace(p, g_fix.size(), "$FIX"); return v == kUnset ? std::string("(unset)") : v; };
  size_t cell = 0;
  auto do_cell = [&](const std::string& what, const std::string& name, const std::string& tzdir, const std::string& tz, const std::string& lt) {
    if ((int)(cell++ % a.nshards) != a.shard) return;
    std::string why, resolved;
    vf::Case c; c.set("what", what).set("name", unfix(name)).set("TZDIR", unfix(tzdir)).set("TZ", unfix(tz)).set("LOCALTIME", unfix(lt));
    vf::CurrentScope cur([&]() { return c; });
    const bool ok = run_cell(what, name, tzdir, tz, lt, &why, &resolved);
    ev.eval();
    ev.cls(what == "load" ? "load_time_zone_cells" : what == "load2" ? "two_spellings_cells" : what == "load2env" || what == "local2" ? "environment_changes_between_two_calls_cells" : "local_time_zone_cells");
    const bool nontriv = what == "load" ? (tzdir != kUnset || name.compare(0, 5, "file:") == 0 || (!name.empty() && name[0] == '/')) : true;
    if (nontriv) ev.nt(vf::fnv(c.serialize()));
    if (ev.want_sample(what)) ev.sample(what, what + "(" + (what == "load" ? "'" + unfix(name) + "'" : "") + ") TZDIR=" + show(unfix(tzdir)) + " TZ=" + show(unfix(tz)) + " LOCALTIME=" + show(unfix(lt)) + " -> resolves to '" + unfix(resolved) + "'");
    if (!ok) { rep.failing(c, why); rep.commit(); }
  };
  for (auto& td : tzdir_values()) for (auto& n : name_values()) do_cell("load", n, td, kUnset, kUnset);
  for (auto& td : tzdir_values())
    for (const std::string& pair : {std::string("Test/Valid|file:Test/Valid"), std::string("file:Test/Valid|Test/Valid"), "Test/Valid|" + g_fix + "/zoneinfo/Test/Valid",
                                    std::string("Test/Valid|Test//Valid"), std::string("Test/Missing|file:Test/Missing"), std::string("UTC|UTC0"), std::string("Test/Valid|Test/Other"),
                                    // spellings of one fixed offset: each keeps reporting the name it was asked for
                                    std::string("Fixed/UTC+02:00:00|Fixed/UTC+01:60:00"), std::string("Fixed/UTC+01:60:00|Fixed/UTC+02:00:00"),
                                    std::string("Fixed/UTC+01:59:60|Fixed/UTC+01:60:00"), std::string("Fixed/UTC-00:29:60|Fixed/UTC-00:30:00")})
      do_cell("load2", pair, td, kUnset, kUnset);
  // the environment changes during the life of the process
  {
    const std::vector<std::string> dirs = {kUnset, g_fix + "/zoneinfo", g_fix + "/zoneinfo2", g_fix + "/nonexistent"};
    for (auto& d1 : dirs) for (auto& d2 : dirs) {
      if (d1 == d2) continue;
      for (const std::string& pair : {std::string("Test/Valid|Test/Other"), std::string("Test/Valid|Test/Only2"), std::string("Test/Missing|Test/Other"), std::string("UTC|Test/Only2")})
        do_cell("load2env", pair, d1, d2, kUnset);
    }
    const std::string td = g_fix + "/zoneinfo";
    for (const std::string& tz1 : {std::string(kUnset), std::string("Test/Valid"), std::string("localtime")})
      for (const std::string& lt1 : {std::string(kUnset), g_fix + "/localtime_file"})
        for (const std::string& second : {std::string("Test/Other|") + kUnset, std::string("localtime|") + g_fix + "/localtime_file2", std::string(kUnset) + "|" + g_fix + "/localtime_file2",
                                          std::string("Invalid/Zone|") + kUnset, std::string(":Test/Valid|") + g_fix + "/missing_localtime"})
          do_cell("local2", second, td, tz1, lt1);
  }
  for (auto& td : tzdir_values()) for (auto& tz : tz_values()) for (auto& lt : localtime_values()) do_cell("local", "", td, tz, lt);
  ev.exhaustive = true;
  if (a.shard == 0) ev.extra["matrix_cells"] = std::to_string(cell);
  std::string cmd = "chmod -R u+rwx " + g_fix + " 2>/dev/null; rm -rf " + g_fix; (void)!system(cmd.c_str());
}

int main(int argc, char** argv) { return vf::main_dispatch(argc, argv, "C19", run, replay); }
