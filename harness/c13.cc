// C13: concurrent loading and use of zones is race-free and schedule-independent.
// Generated multi-threaded workloads run under ThreadSanitizer: k threads, each
// with a generated list of operations (loads of overlapping and distinct names
// - valid, missing, garbage, fixed, UTC, local - and lookups both ways,
// transition queries, format and parse on shared zones), released together.
// Oracle: TSan reports nothing; all loaders of a name hold equal zones and
// agree on success; every value equals what a single-threaded re-execution
// returns afterwards.
#include <unistd.h>
#include <atomic>
#include <thread>
#include "cctz/time_zone.h"
#include "rcutil.h"
#include "zonepool.h"

using vf::i128;
static vf::Evidence* EV;

struct Op { int kind; int a; int64_t b; };  // kind: 0 load name[a]; 1 lookup(t) on zone a; 2 lookup(cs); 3 next; 4 prev; 5 format; 6 parse; 7 utc/fixed/local factories
struct Workload { int id; std::vector<std::string> names; std::vector<std::vector<Op>> threads; bool hammer = false; };

static std::vector<std::string> g_valid;  // bytes of a few shipped zones

// zcache: in a hammer workload each thread loads a name once and keeps the time_zone (as a server would), so that
// the threads meet in the zone's lookup code rather than at the loader's map mutex
// what the caller's time_zone holds before a load: default (UTC) or some other zone - a failing load must set it to UTC
static cctz::time_zone preset(const Op& op) {
  return (op.b & 1) ? cctz::fixed_time_zone(cctz::seconds(3600 * (1 + (op.b >> 1) % 5))) : cctz::time_zone();
}
static std::string exec_op(const Op& op, const Workload& w, std::vector<std::pair<bool, cctz::time_zone>>* zcache = nullptr) {
  char b[300];
  auto zone = [&](int a) {
    const size_t i = a % w.names.size();
    if (zcache && (*zcache)[i].first) return (*zcache)[i].second;
    cctz::time_zone tz; cctz::load_time_zone(w.names[i], &tz);
    if (zcache) (*zcache)[i] = {true, tz};
    return tz;
  };
  switch (op.kind) {
    case 0: { cctz::time_zone tz = preset(op); bool ok = cctz::load_time_zone(w.names[op.a % w.names.size()], &tz); snprintf(b, sizeof b, "load %d %s", (int)ok, tz.name().c_str()); return b; }
    case 1: { auto al = zone(op.a).lookup(zp::tp(op.b)); snprintf(b, sizeof b, "L %lld-%d-%d %d:%d:%d %d %d %s", (long long)al.cs.year(), al.cs.month(), al.cs.day(), al.cs.hour(), al.cs.minute(), al.cs.second(), al.offset, (int)al.is_dst, al.abbr); return b; }
    case 2: { const cctz::time_zone tz = zone(op.a); auto cl = tz.lookup(tz.lookup(zp::tp(op.b)).cs + (op.b % 3 - 1) * 1800); snprintf(b, sizeof b, "C %d %lld %lld %lld", (int)cl.kind, (long long)zp::unix_of(cl.pre), (long long)zp::unix_of(cl.trans), (long long)zp::unix_of(cl.post)); return b; }
    case 3: case 4: { cctz::time_zone::civil_transition tr; const cctz::time_zone tz = zone(op.a); bool ok = op.kind == 3 ? tz.next_transition(zp::tp(op.b), &tr) : tz.prev_transition(zp::tp(op.b), &tr);
              if (!ok) return "T none"; snprintf(b, sizeof b, "T %lld-%d-%d %d", (long long)tr.to.year(), tr.to.month(), tr.to.day(), tr.to.hour()); return b; }
    case 5: return "F " + cctz::format("%Y-%m-%d %H:%M:%S %Ez %Z %a", zp::tp(op.b), zone(op.a));
    case 6: { cctz::time_point<cctz::seconds> out; char in[64]; snprintf(in, sizeof in, "2%03d-0%d-1%d 0%d:30:00", (int)(op.b % 1000 < 0 ? -(op.b % 1000) : op.b % 1000), (int)(1 + (op.b & 7)), (int)(op.b & 7), (int)(op.b & 7));
              bool ok = cctz::parse("%Y-%m-%d %H:%M:%S", in, zone(op.a), &out); snprintf(b, sizeof b, "P %d %lld", (int)ok, ok ? (long long)zp::unix_of(out) : 0LL); return b; }
    default: {
      cctz::time_zone tz = op.a % 3 == 0 ? cctz::utc_time_zone() : op.a % 3 == 1 ? cctz::fixed_time_zone(cctz::seconds(op.b % 50000)) : cctz::local_time_zone();
      auto al = tz.lookup(zp::tp(op.b)); snprintf(b, sizeof b, "Z %s %d", tz.name().c_str(), al.offset); return b;
    }
  }
}

static bool run_workload(const Workload& w, std::string* why, bool* overlapped) {
  const size_t k = w.threads.size();
  std::vector<std::vector<std::string>> res(k);
  std::vector<std::vector<cctz::time_zone>> zones(k);
  std::atomic<int> ready{0}; std::atomic<bool> go{false};
  std::atomic<int> inside_first_load{0}; std::atomic<int> max_inside{0};
  std::vector<std::thread> th;
  for (size_t i = 0; i < k; ++i) th.emplace_back([&, i]() {
    std::vector<std::pair<bool, cctz::time_zone>> zcache(w.names.size());
    ++ready; while (!go.load(std::memory_order_acquire)) std::this_thread::yield();
    for (const Op& op : w.threads[i]) {
      if (op.kind == 0) {
        int n = ++inside_first_load; int m = max_inside.load(); while (n > m && !max_inside.compare_exchange_weak(m, n)) {}
        // the result of THIS call (possibly the racing first load of the name) is what is compared, not a later cached one
        cctz::time_zone tz = preset(op); const bool ok = cctz::load_time_zone(w.names[op.a % w.names.size()], &tz); zones[i].push_back(tz);
        --inside_first_load;
        char b[300]; snprintf(b, sizeof b, "load %d %s", (int)ok, tz.name().c_str()); res[i].push_back(b);
        continue;
      }
      res[i].push_back(exec_op(op, w, w.hammer ? &zcache : nullptr));
    }
  });
  while (ready.load() < (int)k) std::this_thread::yield();
  go.store(true, std::memory_order_release);
  for (auto& t : th) t.join();
  *overlapped = max_inside.load() >= 2;
  // single-threaded reference
  for (size_t i = 0; i < k; ++i) {
    size_t zi = 0;
    for (size_t j = 0; j < w.threads[i].size(); ++j) {
      const Op& op = w.threads[i][j];
      const std::string ref = exec_op(op, w);
      if (ref != res[i][j]) { *why = "thread " + std::to_string(i) + " op #" + std::to_string(j) + " (kind " + std::to_string(op.kind) + ") returned '" + res[i][j] + "' concurrently but '" + ref + "' single-threaded"; return false; }
      if (op.kind == 0) {
        const std::string& nm = w.names[op.a % w.names.size()];
        cctz::time_zone tz; const bool ok = cctz::load_time_zone(nm, &tz);
        // facts that do not depend on what the cache holds by now: a loaded zone other than UTC reports the requested
        // name, and the data version of its own source
        if (ok && zones[i][zi] != cctz::utc_time_zone() && zones[i][zi].name() != nm) { *why = "thread " + std::to_string(i) + " loaded '" + nm + "' and obtained a zone named '" + zones[i][zi].name() + "'"; return false; }
        if (ok && nm.compare(0, 4, "mem:") == 0 && zones[i][zi].version() != zp::version_in_name(nm)) { *why = "thread " + std::to_string(i) + " loaded '" + nm + "' whose source reports version '" + zp::version_in_name(nm) + "' and obtained version() '" + zones[i][zi].version() + "'"; return false; }
        if (zones[i][zi] != tz) { *why = "thread " + std::to_string(i) + " obtained a time_zone for '" + w.names[op.a % w.names.size()] + "' that is not equal to a later single-threaded load"; return false; }
        ++zi;
      }
    }
  }
  return true;
}

static Workload parse_workload(const vf::Case& c) {
  Workload w; w.id = (int)c.num("id"); w.hammer = c.num("hammer") != 0;
  std::istringstream n(c.get("names")); std::string tok;
  while (std::getline(n, tok, '|')) if (!tok.empty()) w.names.push_back(tok);
  std::istringstream t(c.get("threads")); std::string line;
  while (std::getline(t, line, ';')) {
    std::vector<Op> ops; std::istringstream is(line);
    while (is >> tok) { Op op; long long b; sscanf(tok.c_str(), "%d:%d:%lld", &op.kind, &op.a, &b); op.b = b; ops.push_back(op); }
    if (!ops.empty()) w.threads.push_back(ops);
  }
  return w;
}
static vf::Case to_case(const Workload& w) {
  vf::Case c; c.set("id", w.id); c.set("hammer", w.hammer ? 1 : 0);
  std::string n; for (auto& x : w.names) n += x + "|"; c.set("names", n);
  std::string t; for (auto& th : w.threads) { for (auto& op : th) t += std::to_string(op.kind) + ":" + std::to_string(op.a) + ":" + std::to_string(op.b) + " "; t += ";"; }
  c.set("threads", t);
  return c;
}
static void register_names(const Workload& w) {
  zp::MemStore& st = zp::MemStore::get();
  std::lock_guard<std::mutex> l(st.mu);
  for (auto& n : w.names) {
    if (n.find("/valid") != std::string::npos) st.data[n] = g_valid[vf::fnv(n) % g_valid.size()];
    else if (n.find("/garbage") != std::string::npos) st.data[n] = "TZif garbage";
  }
}
static void load_valid() {
  const char* d = getenv("TZDIR"); std::string base = d ? d : "/repo/testdata/zoneinfo";
  for (const char* z : {"America/New_York", "Europe/London", "Australia/Lord_Howe", "Asia/Kolkata"}) { std::string b = vf::read_file(base + "/" + z); if (!b.empty()) g_valid.push_back(b); }
  if (g_valid.empty()) g_valid.push_back("");
}

static bool replay(const vf::Case& c, std::string* why) {
  load_valid();
  Workload w = parse_workload(c);
  // a race needs the first-load window: replay with fresh name suffixes several times
  for (int rep = 0; rep < 15; ++rep) {
    Workload w2 = w;
    for (auto& n : w2.names) if (n.compare(0, 4, "mem:") == 0) n += "/r" + std::to_string(rep) + "_" + std::to_string((long)getpid());
    register_names(w2);
    bool ov;
    if (!run_workload(w2, why, &ov)) return false;
  }
  return true;
}

static void run(const vf::Args& a, vf::Evidence& ev, vf::Reporter& rep) {
  EV = &ev;
  load_valid();
  ev.rule = "rapidcheck-generated workloads under ThreadSanitizer: k in [2,16] (thorough: up to 64) threads x 5-60 operations each "
            "over a pool of fresh names (valid zone data, missing, garbage - half of them served by a zone-data factory that "
            "holds the loader inside the load for 400 us, so other threads arrive while a first load is in progress -, "
            "fixed-offset, UTC, absolute paths of shipped zones): "
            "load_time_zone (into a default time_zone or one that already holds another zone), lookup(time_point), lookup(civil_second), next/prev_transition, format, parse, utc/fixed/local "
            "factories; instants spread over different transitions of the shared zones; one workload in four is a 'hammer' "
            "(all threads do 300-1500 lookups/transition queries on one shared zone). All threads are released together. "
            "Oracle: no TSan report (halt_on_error), values equal a single-threaded re-execution, loaders of one name hold equal "
            "zones. Non-trivial = at least two threads were inside load_time_zone at the same time (observed); distinct by workload.";
  const char* d = getenv("TZDIR"); const std::string base = d ? d : "/repo/testdata/zoneinfo";
  long budget = a.budget(300, 5000);
  int wl = 0;
  {
    // The very first loads of the process (no zone map exists yet): 8 threads, overlapping and distinct fresh names.
    // Each shard process contributes one such sample (state that only exists once per process).
    Workload w; w.id = a.shard * 100000;
    // four names, each first-loaded by two threads at once: two with valid data, one missing, one with garbage data
    for (int i = 0; i < 4; ++i) w.names.push_back("mem:c13/first/" + std::to_string(a.shard) + "/" + std::to_string(i) + (i == 2 ? "/missing" : i == 3 ? "/garbage" : "/valid") + (a.shard % 2 ? "/slow" : ""));
    for (int t = 0; t < 8; ++t) {
      std::vector<Op> ops;
      ops.push_back(Op{0, t % 4, t & 1 ? 3 : 0});
      ops.push_back(Op{1, t % 4, 1700000000 + t * 1000000});
      ops.push_back(Op{0, (t + 1) % 4, t & 2 ? 5 : 0});
      ops.push_back(Op{2, (t + 2) % 4, -1000000000 + t * 7777777});
      w.threads.push_back(ops);
    }
    register_names(w);
    const vf::Case c = to_case(w);
    vf::CurrentScope cur([&]() { return c; });
    std::string why; bool overlapped = false;
    alarm(180);
    const bool ok = run_workload(w, &why, &overlapped);
    alarm(0);
    ev.eval(32); ev.cls("first_loads_of_the_process_workload");
    if (overlapped) ev.nt(vf::fnv(c.serialize()));
    if (!ok) { rep.failing(c, why); rep.commit(); }
  }
  vf::rc_run("C13.workloads", a.stream_seed(1), (int)budget, rep, [&]() {
    if (rep.shrink_budget_spent(40)) return;  // schedule-dependent failures: bounded shrinking
    Workload w; w.id = a.shard * 100000 + (++wl);
    // one workload in four is a "hammer": many threads doing nothing but lookups (both directions) and transition
    // queries on ONE shared zone, instants spread over its transitions - the shape in which the shared search hints
    // of a zone are read and written most often by different threads
    const bool hammer = *vf::range<int>(0, 3) == 0;
    w.hammer = hammer;
    const int nnames = hammer ? 1 : *vf::range<int>(1, 6);
    for (int i = 0; i < nnames; ++i) {
      int kind = hammer ? (*vf::range<int>(0, 1) ? 0 : 5) : *rc::gen::weightedElement<int>({{5, 0}, {2, 1}, {2, 2}, {1, 3}, {1, 4}, {2, 5}});
      std::string pfx = "mem:c13/" + std::to_string(w.id) + "/" + std::to_string(i);
      // "/slow": the zone-data factory (harness-owned) holds the loader inside the load for 400 us
      const std::string sfx = !hammer && *vf::range<int>(0, 1) ? "/slow" : "";
      switch (kind) {
        case 0: w.names.push_back(pfx + "/valid" + sfx + *rc::gen::element<std::string>("", "", "/ver=2023c", "/ver=2024a", "/ver=2025b")); break;
        case 1: w.names.push_back(pfx + "/missing" + sfx); break;
        case 2: w.names.push_back(pfx + "/garbage" + sfx); break;
        case 3: {
          // a fixed offset, sometimes under two spellings at once (the minutes/seconds fields are not range-checked
          // individually, so +hh:mm:00 and +hh:(mm-1):60 are the same offset)
          char b[40]; const int hh = *vf::range<int>(0, 22), mm = *vf::range<int>(1, 59);
          snprintf(b, sizeof b, "Fixed/UTC+%02d:%02d:00", hh, mm); w.names.push_back(b);
          if (*vf::range<int>(0, 1)) { snprintf(b, sizeof b, "Fixed/UTC+%02d:%02d:60", hh, mm - 1); w.names.push_back(b); }
          break;
        }
        case 4: w.names.push_back(*rc::gen::element<std::string>("UTC", "UTC0")); break;
        default: w.names.push_back(base + "/" + *rc::gen::element<std::string>("America/Los_Angeles", "Europe/Paris", "Asia/Tokyo", "Pacific/Apia", "America/Sao_Paulo")); break;
      }
    }
    const int k = *rc::gen::weightedOneOf<int>({{4, vf::range<int>(2, 8)}, {2, vf::range<int>(9, 16)}, {a.thorough() ? 1 : 0, vf::range<int>(17, 64)}});
    const int nops = hammer ? *vf::range<int>(300, 1500) : *vf::range<int>(5, 60);
    const int nn = (int)w.names.size();
    const int hot = *vf::range<int>(0, nn - 1);
    for (int t = 0; t < k; ++t) {
      std::vector<Op> ops;
      // every thread starts by loading (so first loads race), then mixes
      // the first loads concentrate on one or two "hot" names so that several threads are inside the first load of
      // the same name (valid or not) at the same time
      ops.push_back(Op{0, *vf::range<int>(0, 2) ? hot : *vf::range<int>(0, nn - 1), *vf::range<int64_t>(0, 15)});
      for (int j = 1; j < nops; ++j) {
        Op op; op.kind = hammer ? *rc::gen::weightedElement<int>({{6, 1}, {8, 2}, {1, 3}, {1, 4}, {1, 6}})
                                : *rc::gen::weightedElement<int>({{2, 0}, {6, 1}, {4, 2}, {1, 3}, {1, 4}, {1, 5}, {1, 6}, {1, 7}});
        op.a = *vf::range<int>(0, nn - 1);
        op.b = *rc::gen::weightedOneOf<int64_t>({{6, vf::range<int64_t>(-2500000000LL, 4200000000LL)}, {1, vf::any_i64()}, {1, rc::gen::element<int64_t>(INT64_MIN, INT64_MAX, 0, 1710054000, 1699164000)}});
        ops.push_back(op);
      }
      w.threads.push_back(ops);
    }
    register_names(w);
    const vf::Case c = to_case(w);
    vf::CurrentScope cur([&]() { return c; });
    std::string why; bool overlapped = false;
    alarm(180);  // a workload takes milliseconds; a livelock/deadlock must not eat the whole budget
    const bool ok = run_workload(w, &why, &overlapped);
    alarm(0);
    size_t total = 0; for (auto& t : w.threads) total += t.size();
    EV->eval(total);
    EV->cls("workloads");
    if (hammer) EV->cls("hammer_workloads(one shared zone, 300-1500 lookups per thread)");
    EV->cls("threads_" + std::string(k <= 4 ? "2-4" : k <= 8 ? "5-8" : k <= 16 ? "9-16" : "17-64"));
    if (overlapped) { EV->nt(vf::fnv(c.serialize())); EV->cls("workload_with_overlapping_loads(observed)"); }
    if (EV->want_sample("wl")) EV->sample("wl", std::to_string(k) + " threads x " + std::to_string(nops) + " ops over names " + c.get("names").substr(0, 160));
    if (!ok) { rep.failing(c, why); RC_FAIL(why); }
  });
}

int main(int argc, char** argv) { return vf::main_dispatch(argc, argv, "C13", run, replay); }
