// libFuzzer target for C08: (zone, instant, femtoseconds, raw format bytes).
#include "c08_core.h"
#include "fuzzutil.h"

extern "C" int LLVMFuzzerTestOneInput(const uint8_t* data, size_t size) {
  const c08::FuzzArgs fa = c08::decode_fuzz(data, size);
  const auto& zs = fr::zones();
  const size_t zi = fa.zi; const int64_t t = fa.t, fs = fa.fs; const std::string& fmt = fa.fmt;
  fz::Stats& st = fz::Stats::get();
  st.ev.eval();
  std::string why; bool exact = false;
  int r = c08::oracle(fmt, zs[zi].tz, t, fs, &why, &exact);
  if (r == 0) fz::fail("zone=" + zs[zi].label + " " + why);
  st.ev.cls(exact ? "exact_oracle" : "malformed_or_unknown");
  if (fmt.find('%') != std::string::npos) st.ev.nt(vf::mix(vf::fnv(fmt), (uint64_t)t));
  if (!exact && st.ev.want_sample("fuzz_malformed")) st.ev.sample("fuzz_malformed", vf::esc(fmt));
  return 0;
}
