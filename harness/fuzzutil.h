// Helpers for libFuzzer targets: counters that survive a trap, shared seeds.
#pragma once
#include <unistd.h>
#include "common.h"

namespace fz {
struct Stats {
  vf::Evidence ev;
  std::string path;
  static Stats& get() {
    static Stats* s = [] {
      Stats* p = new Stats;
      const char* d = getenv("VERIF_FUZZ_STATS_DIR");
      if (d) p->path = std::string(d) + "/fuzzstats-" + std::to_string((long)getpid()) + ".json";
      atexit([] { Stats::get().flush(); });
      return p;
    }();
    return *s;
  }
  void flush() { if (!path.empty()) ev.write(path); }
};
// Call on an oracle failure inside a fuzz target: record, flush counters, trap
// (libFuzzer then saves the input as crash-<sha1>).
[[noreturn]] inline void fail(const std::string& why) {
  fprintf(stderr, "ORACLE-FAIL: %s\n", why.c_str());
  Stats::get().flush();
  __builtin_trap();
}
}  // namespace fz
