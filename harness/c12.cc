// C12: loading arbitrary bytes as zone data is memory-safe, terminating and
// deterministic.  This binary: rapidcheck structure-aware mutations of valid
// files (the byte-level libFuzzer campaign is c12fuzz.cc; the uninitialised-
// read differential is c12probe.cc).
#include <sys/stat.h>
#include <unistd.h>
#include "c12_core.h"
#include "rcutil.h"
#include "zonegen.h"

static vf::Evidence* EV;

struct Layout {  // byte offsets inside a well-formed TZif file
  bool ok = false; int version = 1;
  size_t h1 = 0, h2 = 0;           // header offsets
  size_t times = 0, idx = 0, types = 0, chars = 0, footer = 0;  // of the block cctz decodes
  size_t timecnt = 0, typecnt = 0, charcnt = 0, tl = 4;
};
static Layout layout_of(const std::string& b) {
  Layout L; zm::detail::Hdr h;
  if (!zm::detail::read_hdr(b, 0, &h)) return L;
  L.version = h.version; size_t off = 44; zm::detail::Hdr hh = h;
  if (h.version >= 2) { off += zm::detail::block_len(h, 4); L.h2 = off; if (!zm::detail::read_hdr(b, off, &hh)) return L; off += 44; L.tl = 8; }
  L.timecnt = hh.timecnt; L.typecnt = hh.typecnt; L.charcnt = hh.charcnt;
  L.times = off; L.idx = L.times + L.timecnt * L.tl; L.types = L.idx + L.timecnt; L.chars = L.types + L.typecnt * 6;
  L.footer = off + zm::detail::block_len(hh, L.tl);
  L.ok = L.footer <= b.size();
  return L;
}
static void put_be(std::string& b, size_t off, uint64_t v, int n) { for (int i = 0; i < n; ++i) if (off + i < b.size()) b[off + i] = (char)(v >> (8 * (n - 1 - i))); }

static const char* kFooters[] = {"EST5EDT,M3.2.0,M11.1.0", "EST5EDT", "EST5EDT4", "EST5EDT,M3.2.0", "EST5EDT,M10.2,M11.1.0", "<>0", "XXX-24YYY-24,0/0,J365/25",
                                 "A0", "AAA0BBB,0/-1,J100/2", "AAA-23:59:59BBB-24,J365/167:59:59,J1/-167:59:59", "WST3WDT,0/-3,J182/-2", ":UTC", "UTC0\nUTC0", "",
                                 "AAA24BBB-24,M12.5.6/167,M1.1.0/-167", "AAA0BBB,J60,J59", "AAA0BBB,M2.5.0/0,M2.5.0/0", "STD5:15DST4:55,M8.3.1/98,M3.5.3"};

static std::string mutate_once(std::string b, std::string* kind) {
  Layout L = layout_of(b);
  int k = *vf::range<int>(0, 12);
  if (!L.ok && k < 7) k = 7 + k % 5;
  switch (k) {
    case 0: {  // header count edit
      *kind = "header_count";
      size_t h = (L.version >= 2 && *vf::range<int>(0, 3) != 0) ? L.h2 : L.h1;
      int field = *vf::range<int>(0, 5);
      uint32_t old = zm::detail::be32((const unsigned char*)b.data() + h + 20 + 4 * field);
      uint32_t v = *rc::gen::element<uint32_t>(0u, 1u, 2u, 255u, 256u, 257u, 0x7fffffffu, 0x80000000u, 0xffffffffu, old + 1, old - 1, old * 2, 300u, 1000u);
      put_be(b, h + 20 + 4 * field, v, 4);
      break;
    }
    case 1: {  // transition type index edit
      *kind = "type_index";
      if (L.timecnt) b[L.idx + *vf::index(L.timecnt)] = (char)*rc::gen::element<int>(0, 1, (int)L.typecnt - 1, (int)L.typecnt, (int)L.typecnt + 1, 255, 128);
      break;
    }
    case 2: {  // abbreviation index edit
      *kind = "abbr_index";
      if (L.typecnt) b[L.types + 6 * *vf::index(L.typecnt) + 5] = (char)*rc::gen::element<int>(0, 1, (int)L.charcnt - 1, (int)L.charcnt, (int)L.charcnt + 1, 255);
      break;
    }
    case 3: {  // 8-byte (or 4-byte) time edit
      *kind = "time_value";
      if (L.timecnt) {
        size_t i = *vf::index(L.timecnt);
        int64_t v = *rc::gen::oneOf(rc::gen::element<int64_t>(INT64_MIN, INT64_MIN + 1, INT64_MAX, INT64_MAX - 1, -(1LL << 59), -(1LL << 59) - 1, -(1LL << 59) + 1, 1LL << 59, (1LL << 59) + 1,
                                                               1LL << 62, -(1LL << 62), (1LL << 31) - 1, 1LL << 31, -(1LL << 31), 0, -1, INT64_MAX - 12622780800LL * 401, INT64_MAX - 31556952LL * 300),
                                    vf::edge_i64());
        if (*vf::range<int>(0, 3) == 0 && L.timecnt) i = L.timecnt - 1;  // the last transition matters most for the extension
        // extreme values only survive the ordering check at the matching end of the table
        if (*vf::range<int>(0, 3) != 0) { if (v < -(1LL << 58)) i = 0; else if (v > (1LL << 58)) i = L.timecnt - 1; }
        put_be(b, L.times + i * L.tl, (uint64_t)v, (int)L.tl);
      }
      break;
    }
    case 4: {  // utoff / isdst edit
      *kind = "ttinfo";
      if (L.typecnt) {
        size_t i = *vf::index(L.typecnt);
        if (*vf::range<int>(0, 2)) put_be(b, L.types + 6 * i, (uint32_t)*rc::gen::element<int32_t>(86400, -86400, 86399, -86399, INT32_MAX, INT32_MIN, 0, 90000, -1), 4);
        else b[L.types + 6 * i + 4] = (char)*rc::gen::element<int>(0, 1, 2, 255);
      }
      break;
    }
    case 5: {  // footer replacement
      *kind = "footer";
      if (L.version >= 2 && L.footer < b.size()) {
        std::string f = kFooters[*vf::index(sizeof kFooters / sizeof *kFooters)];
        if (*vf::range<int>(0, 5) == 0) {
          // unterminated <...> abbreviations, incl. lengths at which the footer string's heap capacity is exact
          // (15/30/60/120 with libstdc++'s doubling), and an embedded NUL followed by more text
          int len = *rc::gen::element(3, 14, 15, 16, 29, 30, 31, 59, 60, 61, 120);
          f = "<" + std::string((size_t)len - 1, 'A');
          if (*vf::range<int>(0, 2) == 0) f = std::string("<AB") + std::string(1, '\0') + "5";
          if (*vf::range<int>(0, 3) == 0) f = "EST5<" + std::string((size_t)len, 'D');
        }
        if (*vf::range<int>(0, 2) == 0) {
          px::Posix P; P.std_abbr = "AAA"; P.dst_abbr = "BBB"; P.std_off = *vf::range<int>(-24, 24) * 3600; P.dst_off = P.std_off + *rc::gen::element(3600, -3600, 0, 86400);
          P.has_dst = true; P.start = zg::date_for_doy(*vf::range<int>(0, 2), *vf::range<int>(0, 364)); P.end = zg::date_for_doy(*vf::range<int>(0, 2), *vf::range<int>(0, 364));
          P.start.time = *zg::rule_time_gen(); P.end.time = *zg::rule_time_gen();
          f = zg::posix_text(P, true, true);
        }
        b = b.substr(0, L.footer) + "\n" + f + (*vf::range<int>(0, 5) ? "\n" : "");
      }
      break;
    }
    case 6: {  // chars edit: drop NUL terminators / duplicate abbreviations
      *kind = "abbrev_chars";
      if (L.charcnt) b[L.chars + *vf::index(L.charcnt)] = (char)*rc::gen::element<int>(0, 'A', 'L', 0xff);
      break;
    }
    case 7: {  // truncation
      *kind = "truncate";
      std::vector<size_t> cuts = {0, 4, 20, 43, 44, 45, b.size() > 0 ? b.size() - 1 : 0, b.size() / 2};
      if (L.ok) for (size_t c : {L.h2, L.h2 + 44, L.times, L.idx, L.types, L.chars, L.footer, L.footer + 1}) cuts.push_back(c);
      size_t c = cuts[*vf::index(cuts.size())];
      if (*vf::range<int>(0, 3) == 0 && !b.empty()) c = *vf::index(b.size());
      b.resize(std::min(c, b.size()));
      break;
    }
    case 8: {  // bit flips
      *kind = "bitflip";
      int n = *vf::range<int>(1, 4);
      for (int i = 0; i < n && !b.empty(); ++i) b[*vf::index(b.size())] ^= (char)(1 << *vf::range<int>(0, 7));
      break;
    }
    case 9: {  // version byte
      *kind = "version_byte";
      if (b.size() > 4) b[4] = (char)*rc::gen::element<int>(0, '1', '2', '3', '4', '5', '9', 0xff);
      if (L.ok && L.h2 && L.h2 + 5 <= b.size() && *vf::range<int>(0, 1)) b[L.h2 + 4] = (char)*rc::gen::element<int>(0, '2', '9');
      break;
    }
    case 10: {  // byte insertion / deletion
      *kind = "insert_delete";
      if (!b.empty()) { size_t p = *vf::index(b.size()); if (*vf::range<int>(0, 1)) b.erase(p, *vf::range<int>(1, 8)); else b.insert(p, std::string((size_t)*vf::range<int>(1, 8), (char)*vf::range<int>(0, 255))); }
      break;
    }
    case 11: {  // leap-second count / indicator counts consistent rewrite is not attempted: just magic damage
      *kind = "magic";
      if (b.size() >= 4) b[*vf::index(4)] = 'X';
      if (L.ok && L.h2 && L.h2 + 2 <= b.size() && *vf::range<int>(0, 1)) { b[L.h2] = 'T'; b[L.h2 + 1] = 'z'; }
      break;
    }
    default: {  // all types DST / many types
      *kind = "all_types_dst";
      if (L.ok) for (size_t i = 0; i < L.typecnt; ++i) b[L.types + 6 * i + 4] = 1;
      break;
    }
  }
  return b;
}

// base file, then the input derived from it, then the base file again: what a file loads as must not depend on which
// other files (for instance a near miss of itself) were loaded before it
static bool oracle_with_base(const std::string& base, const std::string& input, std::string* why, std::string* cls) {
  const zm::TzFile fb = zm::read_tzif(base);
  const bool base_ok = c12::declared_data_len(base) <= (1u << 17);
  c12::Outcome o1; if (base_ok) o1 = c12::load_once(base, "c12base", fb);
  if (!c12::oracle(input, why, cls, true)) return false;
  if (base_ok) {
    const c12::Outcome o2 = c12::load_once(base, "c12base", fb);
    if (o1.loaded != o2.loaded || o1.fp != o2.fp || o1.desc != o2.desc) {
      *why = "a file loaded before and after another (derived) file was loaded answers differently: " + (o1.loaded ? o1.desc : std::string("not loaded")) + " vs " + (o2.loaded ? o2.desc : std::string("not loaded"));
      return false;
    }
  }
  return true;
}
static bool replay(const vf::Case& c, std::string* why) {
  vf::Evidence ev; EV = &ev;
  std::string cls;
  alarm(60);
  if (c.has("base_hex")) return oracle_with_base(vf::unhex(c.get("base_hex")), vf::unhex(c.get("input_hex")), why, &cls);
  return c12::oracle(vf::unhex(c.get("input_hex")), why, &cls, true);
}

static void run(const vf::Args& a, vf::Evidence& ev, vf::Reporter& rep) {
  EV = &ev;
  ev.rule = "rapidcheck: a valid file (generated W zone or a shipped zone) x 1-4 typed mutations that shrink as a unit: header-count "
            "edits (0, 255..257, 2^31-1, ...), transition type-index / abbreviation-index / ttinfo / 8-byte time edits (+-2^63, "
            "+-2^59, +-2^31, near-max), footer replaced by POSIX-TZ sentences and near misses, truncation at every structural "
            "boundary, bit flips, version bytes, insert/delete, all-types-DST; splices of two files. Oracle: ASan/UBSan/assert "
            "clean, terminates (20 s alarm; a healthy load takes < 10 ms), failed loads leave UTC, same bytes loaded twice give "
            "the same outcome and the same fingerprint over a probe panel (lookups at decoded transitions +-1, sentinels, "
            "limits; civil lookups; next/prev; a forward chain; description); for half of the mutants the unmutated base file is loaded before and after the mutant and must answer the same. Non-trivial = passes the magic check and "
            "reaches header/data decoding; distinct by content.";
  std::vector<std::string> shipped = zp::shipped_files();
  long budget = a.budget(4000, 60000);
  int dumped = 0;
  vf::rc_run("C12.mutations", a.stream_seed(1), (int)budget, rep, [&]() {
    std::string base;
    if (*vf::range<int>(0, 2) == 0 && !shipped.empty()) base = vf::read_file(shipped[*vf::index(shipped.size())]);
    else base = zg::write_tzif(*zg::zone_gen());
    if (*vf::range<int>(0, 24) == 0) {
      // a consistently written file with more types than an 8-bit index can address
      zg::ZoneSpec z; z.version = *rc::gen::element(1, 2);
      int nt = *rc::gen::element(256, 257, 300, 1000);
      bool alldst = *vf::range<int>(0, 2) != 0;
      for (int i = 0; i < nt; ++i) z.types.push_back(zg::TypeSpec{(int32_t)(i % 24) * 3600, alldst || (i % 2) == 1, "T" + std::to_string(i % 7) + "X"});
      int ntr = *vf::range<int>(0, 6);
      for (int i = 0; i < ntr; ++i) z.trans.push_back(zm::Trans{(int64_t)i * 10000000 - 20000000, *rc::gen::element(0, 0, 1, 255, 200)});
      base = zg::write_tzif(z);
      EV->cls("base_many_types");
    }
    std::string b = base;
    std::string kinds;
    int n = *rc::gen::weightedElement<int>({{1, 0}, {5, 1}, {3, 2}, {1, 3}, {1, 4}});
    for (int i = 0; i < n; ++i) { std::string k; b = mutate_once(b, &k); kinds += (i ? "+" : "") + k; EV->cls("mutation_" + k); }
    if (*vf::range<int>(0, 15) == 0 && !shipped.empty()) {  // splice
      std::string other = vf::read_file(shipped[*vf::index(shipped.size())]);
      size_t cut = b.empty() ? 0 : *vf::index(b.size()), cut2 = other.empty() ? 0 : *vf::index(other.size());
      b = b.substr(0, cut) + other.substr(cut2); kinds += "+splice"; EV->cls("mutation_splice");
    }
    if (b.size() > 65536) b.resize(65536);
    if (!a.workdir.empty() && dumped < 400) {  // feed the init-pattern differential (c12probe) with generated mutants
      if (dumped == 0) mkdir((a.workdir + "/mutants").c_str(), 0777);
      char nm[64]; snprintf(nm, sizeof nm, "/mutants/m%d-%04d", a.shard, dumped++);
      vf::write_file(a.workdir + nm, b);
    }
    vf::Case c; c.set("input_hex", vf::hex(b)); c.set("mutations", kinds);
    const bool with_base = n > 0 && base.size() <= 65536 && *vf::range<int>(0, 1) == 0;
    if (with_base) { c.set("base_hex", vf::hex(base)); EV->cls("base_reloaded_after_the_mutant"); }
    vf::CurrentScope cur([&]() { return c; });
    std::string why, cls;
    alarm(30);
    bool ok = with_base ? oracle_with_base(base, b, &why, &cls) : c12::oracle(b, &why, &cls, true);
    alarm(0);
    EV->eval();
    EV->cls("outcome_" + cls);
    if (b.size() >= 44 && memcmp(b.data(), "TZif", 4) == 0) EV->nt(vf::fnv(b));
    if (kinds.empty()) kinds = "unmutated";
    if (EV->want_sample(kinds.substr(0, kinds.find('+')))) EV->sample(kinds.substr(0, kinds.find('+')), kinds + " on a " + std::to_string(base.size()) + "-byte file -> " + cls);
    if (!ok) { rep.failing(c, why); RC_FAIL(why); }
  });
}

int main(int argc, char** argv) { return vf::main_dispatch(argc, argv, "C12", run, replay); }
