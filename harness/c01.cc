// C01: instant -> civil conversion follows the zone's TZif data exactly.
// Oracle: zonemodel (independent TZif reader + POSIX rule evaluator) + refcal.
#include "zoneoracle.h"

using vf::i128;
static vf::Evidence*& EV = zo::EV;
using zo::check_instant;

static bool nontrivial(const zm::Model& m, int64_t t) {
  if (m.f.trans.empty()) return false;
  if (t < m.f.trans.front().t || t >= m.f.trans.back().t) return true;
  return !m.changes((i128)t - 86400, (i128)t + 86400).empty();
}

// The templated overload lookup(time_point<D>) with a sub-second D: the instant t + f (0 < f < 1 s) lies inside the
// second t, so it must be answered exactly like t (also before 1970, where truncation and floor differ).
template <typename D>
static bool subsecond_as(const cctz::time_zone& tz, int64_t t, int64_t frac, const char* dname, std::string* why) {
  const int64_t per = D::period::den / D::period::num;
  if (t > INT64_MAX / per - 2 || t < INT64_MIN / per + 2) return true;  // not representable in D
  const auto a = tz.lookup(cctz::time_point<D>(D(t * per + frac)));
  const auto b = tz.lookup(zp::tp(t));
  EV->eval(); EV->cls("subsecond_lookup");
  if (a.cs != b.cs || a.offset != b.offset || a.is_dst != b.is_dst || std::string(a.abbr) != b.abbr) {
    *why = std::string("lookup(time_point<") + dname + ">) at " + vf::i64_str(t) + " s + " + vf::i64_str(frac) + "/" + vf::i64_str(per) +
           " s differs from lookup(" + vf::i64_str(t) + " s): " + refcal::str(zp::civ(a.cs)) + " " + a.abbr + " vs " + refcal::str(zp::civ(b.cs)) + " " + b.abbr;
    return false;
  }
  return true;
}
static bool check_subsecond(const cctz::time_zone& tz, int64_t t, std::string* why) {
  const uint64_t hsh = vf::mix((uint64_t)t, 0xc01c01ULL);
  switch (hsh % 3) {
    case 0: { const int64_t f[] = {1, 500, 999}; return subsecond_as<std::chrono::milliseconds>(tz, t, f[(hsh >> 8) % 3], "milliseconds", why); }
    case 1: { const int64_t f[] = {1, 500000, 999999}; return subsecond_as<std::chrono::microseconds>(tz, t, f[(hsh >> 8) % 3], "microseconds", why); }
    default: { const int64_t f[] = {1, 500000000, 999999999}; return subsecond_as<std::chrono::nanoseconds>(tz, t, f[(hsh >> 8) % 3], "nanoseconds", why); }
  }
}

static bool check_zone(const zp::Zone& z, zp::Handle& h, bool in_rc, bool full, vf::Case* fc, std::string* why) {
  fc->set("sweep", full ? "full" : "thin");  // lets replay re-create the call history of the sweep
  if (!h.ok) { *why = "well-formed TZif file (" + zc::zone_class(z.model) + ") failed to load"; fc->set("load", "failed"); return false; }
  const zp::Anchors an = zp::anchors_for(z.model, full);
  const std::vector<int64_t> deltas = zp::deltas_for(z.model);
  const uint64_t zh = vf::fnv(z.bytes);
  // a public handle for the templated overload (shipped files are also opened by path; the public cache never frees)
  cctz::time_zone pub; bool have_pub = false;
  if (h.pub) { pub = h.tz; have_pub = true; }
  else if (z.kind == "shipped") have_pub = cctz::load_time_zone(z.load_name, &pub);
  int64_t cur_t = 0;
  vf::CurrentScope cur([&]() { vf::Case c; c.set("zone", z.label); c.set("t", cur_t); return c; });
  for (size_t i = 0; i < an.instants.size(); ++i) {
    for (int64_t d : deltas) {
      const i128 tt = (i128)an.instants[i] + d;
      if (!refcal::fits64(tt)) continue;
      const int64_t t = (int64_t)tt;
      cur_t = t;
      EV->eval();
      if (!check_instant(z, h, t, why)) { fc->set("t", t); fc->set("anchor", an.tags[i]); return false; }
      if (have_pub && d >= -1 && d <= 1 && !check_subsecond(pub, t, why)) { fc->set("t", t); fc->set("anchor", an.tags[i]); fc->set("subsecond", "1"); return false; }
      if (d >= -86400 && d <= 86400) { EV->nt(vf::mix(zh, (uint64_t)t)); }
      if ((d == 0) && EV->want_sample(an.tags[i])) {
        const auto al = h.lookup(t);
        EV->sample(an.tags[i], z.kind + " zone (" + zc::zone_class(z.model) + ") t=" + vf::i64_str(t) + " -> " +
                                   refcal::str(zp::civ(al.cs)) + " " + al.abbr + " off=" + std::to_string(al.offset));
      }
    }
    EV->cls("anchor_" + an.tags[i]);
  }
  // the same anchors once more in a galloping order (the sweep above asks in nearly ascending order): from anchor i to
  // the anchors 4, 8, 16 and 32 positions further on and back - an answer must not depend on what was asked before
  {
    std::vector<int64_t> a = an.instants;
    std::sort(a.begin(), a.end()); a.erase(std::unique(a.begin(), a.end()), a.end());
    const size_t step = (full || a.size() < 400) ? 1 : 3;
    for (size_t i = 0; i < a.size(); i += step)
      for (size_t s : {(size_t)4, (size_t)8, (size_t)16, (size_t)32})
        for (int dir : {1, -1}) {
          if (dir > 0 ? i + s >= a.size() : i < s) continue;
          (void)h.lookup(a[i]);
          const int64_t t = a[dir > 0 ? i + s : i - s];
          cur_t = t;
          EV->eval(); EV->cls("galloping_order_probe");
          if (!check_instant(z, h, t, why)) { fc->set("t", t); fc->set("anchor", "galloping order after lookup(" + vf::i64_str(a[i]) + ")"); fc->set("prime_t", a[i]); return false; }
        }
  }
  if (in_rc) {
    // extra generated probes: (anchor, delta) pairs and uniform instants
    int n = *vf::range<int>(4, 16);
    for (int k = 0; k < n; ++k) {
      int64_t t;
      if (*vf::range<int>(0, 3) == 0 || an.instants.empty()) t = *vf::any_i64();
      else {
        i128 tt = (i128)an.instants[*vf::index(an.instants.size())] + *vf::range<int64_t>(-100000, 100000);
        t = refcal::clamp64(tt);
      }
      cur_t = t;
      EV->eval();
      if (nontrivial(z.model, t)) EV->nt(vf::mix(zh, (uint64_t)t));
      if (!check_instant(z, h, t, why)) { fc->set("t", t); fc->set("anchor", "generated"); return false; }
    }
  }
  return true;
}

static bool replay(const vf::Case& c, std::string* why) {
  vf::Evidence ev; EV = &ev;
  zp::Zone z = zp::zone_from_label(c.get("zone"));
  if (!z.model.in_domain()) { *why = "zone outside the property's domain"; return true; }
  zp::Handle h = zp::open_public(z.load_name);
  if (!h.ok) { *why = "well-formed TZif file failed to load"; return false; }
  if (c.has("prime_t")) (void)h.lookup((int64_t)c.num("prime_t"));
  if (c.has("t") && !check_instant(z, h, (int64_t)c.num("t"), why)) return false;
  if (c.has("t") && !check_subsecond(h.tz, (int64_t)c.num("t"), why)) return false;
  if (c.has("t") && !c.has("sweep")) return true;
  // the single probe passes in a fresh process: re-run the whole deterministic sweep (history-dependent failures)
  vf::Case fc;
  return check_zone(z, h, false, c.get("sweep", "full") == "full", &fc, why);
}

static void run(const vf::Args& a, vf::Evidence& ev, vf::Reporter& rep) {
  EV = &ev;
  ev.rule = "zones: every shipped zone file (sweep), zic-compiled zones from a random zic-source grammar (sweep), "
            "rapidcheck-generated synthetic TZif files of domain W (versions 1-4, fat/slim, all footer forms). "
            "instants: anchor + delta, anchors = every recorded transition, rule transitions of every year of the "
            "403-year table around the seam, their 400-year images up to the last representable year, +-2^59, "
            "+-2^31, int64 min/max; deltas = 0, +-1, +-2, +-each offset(+-1), +-1h, +-1d; plus generated uniform "
            "instants; the anchors again in a galloping order (4/8/16/32 positions forward and back); at delta 0/+-1 also the templated lookup(time_point<ms/us/ns>) inside that second. Non-trivial = within one day of a change point or outside the recorded range; distinct by (zone bytes, t).";
  zc::Ctx c{&a, &ev, &rep};
  zc::ZoneProp p;
  p.check_zone = check_zone;
  zc::run_all(c, p, 1200, 6000);
}

int main(int argc, char** argv) { return vf::main_dispatch(argc, argv, "C01", run, replay); }
