// C08: format() renders exactly the fields lookup() reports.  rapidcheck token
// lists (grammar A) with the exact reference renderer; raw/malformed strings
// are covered by the libFuzzer target c08fuzz.cc.
#include "c08_core.h"

static vf::Evidence* EV;

static bool replay(const vf::Case& c, std::string* why) {
  if (c.has("fuzz_input_hex")) {
    const std::string raw = vf::unhex(c.get("fuzz_input_hex"));
    const c08::FuzzArgs fa = c08::decode_fuzz((const uint8_t*)raw.data(), raw.size());
    bool exact;
    return c08::oracle(fa.fmt, fr::zones()[fa.zi].tz, fa.t, fa.fs, why, &exact) != 0;
  }
  const fr::ZoneEntry* z = fr::zone_by_label(c.get("zone"));
  if (!z) { *why = "zone not available: " + c.get("zone"); return true; }
  bool exact;
  return c08::oracle(vf::unhex(c.get("format_hex")), z->tz, (int64_t)c.num("t"), (int64_t)c.num("fs"), why, &exact) != 0;
}

static void run(const vf::Args& a, vf::Evidence& ev, vf::Reporter& rep) {
  vf::History::enabled() = true;  // failing cases carry the cases that ran just before them (state between calls)
  EV = &ev;
  ev.rule = "rapidcheck: token lists over literal text, %%, every library-defined specifier (%Y %m %d %e %H %M %S %U %W %u %w %z %:z "
            "%::z %:::z %Ez %E*z %Z %s %ET %E4Y %E*S %E*f %E0..1024S/f) and 45 whitelisted libc conversions (incl. E/O modifiers) x "
            "zone panel (UTC, fixed offsets incl. -00:00:30 and +-23:59:59, 12 shipped zones) x anchored instants (int64 limits, "
            "transitions, year boundaries -1000..10000 and the int-year limits, uniform) x femtoseconds; one case in three stays in the previous case's zone within a day of its instant; one in twelve is a run of 6-14 expanding libc conversions; malformed tails appended in "
            "1/8 of the cases (dangling %, %E, %E*, %:, huge digit counts). Oracle: reference renderer from lookup() fields + strftime "
            "per libc token; otherwise determinism and literal-prefix preservation. Non-trivial = >= 2 tokens incl. a library-defined "
            "specifier and one of: year outside 0..9999, t at an int64 limit, 15-18 fraction digits, negative sub-minute offset.";
  long budget = a.budget(40000, 600000);
  vf::rc_run("C08.tokens", a.stream_seed(1), (int)budget, rep, [&]() {
    const auto& zs = fr::zones();
    // one case in three stays in the zone of the previous case and moves only a little in time (seconds to a day): calls
    // that follow each other closely, as in a loop over log records
    static size_t prev_zi = 0; static int64_t prev_t = 0; static bool have_prev = false;
    const bool near_prev = have_prev && *vf::range<int>(0, 2) == 0;
    const size_t zi = near_prev ? prev_zi : *vf::index(zs.size());
    const fr::ZoneEntry& z = zs[zi];
    // one case in twelve is a run of 6-14 expanding libc conversions (output many times longer than the format)
    const bool expanding = *vf::range<int>(0, 11) == 0;
    int n = expanding ? *vf::range<int>(6, 14) : *vf::range<int>(1, 8);
    std::vector<fr::Token> toks;
    bool has_cctz = false, many_digits = false;
    for (int i = 0; i < n; ++i) {
      int k = *rc::gen::weightedElement<int>({{5, 0}, {2, 1}, {3, 2}});
      fr::Token tk = k == 0 ? *fr::cctz_token_gen() : k == 1 ? *fr::libc_token_gen() : *fr::literal_gen();
      if (expanding) tk = fr::Token{fr::Token::LIBC, *rc::gen::element<std::string>("%c", "%c", "%Ec", "%A", "%B", "%x", "%X", "%r", "%D", "%F", "%T")};
      // two adjacent literals would merge; fine.  A literal starting with a digit right after %E<n> is still unambiguous.
      if (tk.kind == fr::Token::CCTZ) { has_cctz = true; if (tk.text.size() > 3 && tk.text[1] == 'E' && atoi(tk.text.c_str() + 2) >= 15) many_digits = true; }
      toks.push_back(tk);
    }
    std::string fmt = fr::join(toks);
    bool malformed = *vf::range<int>(0, 7) == 0;
    if (malformed) fmt += *rc::gen::element<std::string>("%", "%E", "%E*", "%:", "%::", "%:::", "%E99999999999999999999S", "%E1025f", "%E-3S", "%Ea", "%O", "%Q", "%E4", "%E*Y", "%:::::z", std::string("%Y\0%d", 5));
    int64_t t = fr::instant_gen(z.tz);
    if (near_prev) t = refcal::clamp64((vf::i128)prev_t + *rc::gen::element<int64_t>(1, -1, 59, -61, 3599, -3600, 18000, -19800, 43200, 86399, -86399, 86400, -86400) * *vf::range<int>(1, 2));
    prev_zi = zi; prev_t = t; have_prev = true;
    if (near_prev) EV->cls("same_zone_close_to_previous_instant");
    if (expanding) EV->cls("run_of_expanding_libc_conversions");
    const int64_t fs = fr::femto_gen();
    vf::Case c; c.set("zone", z.label); c.set("format_hex", vf::hex(fmt)); c.set("format_printable", vf::esc(fmt)); c.set("t", t); c.set("fs", fs);
    vf::CurrentScope cur([&]() { return c; });
    std::string why; bool exact = false;
    int r = c08::oracle(fmt, z.tz, t, fs, &why, &exact);
    EV->eval();
    EV->cls(exact ? "exact_oracle" : "malformed_or_unknown(safety+determinism+prefix)");
    if (r == 2) EV->unspec("libc_year_token_with_year_outside_tm_range");
    const auto al = z.tz.lookup(fr::tp(t));
    bool hard = al.cs.year() < 0 || al.cs.year() > 9999 || t == INT64_MIN || t == INT64_MAX || many_digits || (al.offset < 0 && al.offset > -60);
    if (exact && n >= 2 && has_cctz && hard) EV->nt(vf::mix(vf::fnv(fmt), vf::mix((uint64_t)t, vf::fnv(z.label) + (uint64_t)fs)));
    if (EV->want_sample(exact ? "exact" : "malformed")) EV->sample(exact ? "exact" : "malformed", z.label + " t=" + vf::i64_str(t) + " fs=" + vf::i64_str(fs) + " '" + vf::esc(fmt) + "' -> '" + vf::esc(cctz::detail::format(fmt, fr::tp(t), cctz::detail::femtoseconds(fs), z.tz)) + "'");
    if (r == 0) { rep.failing(c, why); RC_FAIL(why); }
  });
}

int main(int argc, char** argv) { return vf::main_dispatch(argc, argv, "C08", run, replay); }
