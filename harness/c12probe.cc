// C12 init-pattern differential probe: prints, for every input file given on
// the command line, "<content-hash> <loaded> <fingerprint>".  Linked against
// cctz built with -ftrivial-auto-var-init=pattern resp. =zero; the two outputs
// must be identical ("the outcome is a function of the bytes alone": a read of
// an uninitialised automatic variable makes them differ).
#include "c12_core.h"

int main(int argc, char** argv) {
  for (int i = 1; i < argc; ++i) {
    std::string bytes = vf::read_file(argv[i]);
    if (c12::declared_data_len(bytes) > (1u << 17)) continue;
    const zm::TzFile f = zm::read_tzif(bytes);
    c12::Outcome o = c12::load_once(bytes, "probe", f);
    printf("%016llx %d %016llx %s\n", (unsigned long long)vf::fnv(bytes), (int)o.loaded, (unsigned long long)o.fp, o.desc.c_str());
  }
  return 0;
}
