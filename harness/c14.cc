// C14: results never depend on call history (lookup hints and the zone cache
// are invisible).
//  (a) hint-state enumeration: every table interval is made the remembered one
//      (by one priming query, for each direction) before each probe of a panel;
//      answers must equal the history-free model answer.
//  (b) generated call sequences: applied in order to copy A, in reversed/rotated
//      order to a fresh copy B of the same bytes; answers must agree pairwise.
//  (c) cache model: generated load() sequences over valid / invalid / fixed / UTC
//      names against a counting data source.
#include "cctz/time_zone.h"
#include "zoneoracle.h"

using vf::i128;
static vf::Evidence*& EV = zo::EV;

// ---- (a) ---------------------------------------------------------------------
static bool hint_enumeration(const zp::Zone& z, zp::Handle& h, bool full, vf::Case* fc, std::string* why) {
  const zm::Model& m = z.model;
  zp::Anchors an = zp::anchors_for(m, full);
  std::vector<int64_t> a = an.instants;
  std::sort(a.begin(), a.end()); a.erase(std::unique(a.begin(), a.end()), a.end());
  const uint64_t zh = vf::fnv(z.bytes);
  int64_t prime_t = 0; i128 probe = 0; const char* what = "";
  vf::CurrentScope scope([&]() { vf::Case c; c.set("zone", z.label); c.set("prime_t", prime_t); c.set("probe", probe); c.set("what", what); return c; });
  const size_t step = (full || a.size() < 200) ? 1 : a.size() / 150;
  // a second copy of the same bytes on which lookup() is never called: its transition queries cannot be influenced
  // by any remembered lookup position
  const std::string ref_name = zp::register_bytes(z.bytes, "c14ref");
  zp::Handle href = zp::open_private(ref_name);
  zp::unregister(ref_name);
  for (size_t i = 0; i + 1 < a.size(); i += step) {
    if (href.ok) {
      // transition queries right after a lookup that left its hint on interval i
      for (int64_t q : {a[i], a[i + 1], a[i] + 1, a[i + 1] - 1}) {
        for (int64_t primer : {a[i], a[i] + (a[i + 1] - a[i]) / 2}) {
          cctz::time_zone::civil_transition t1, t2;
          (void)h.lookup(primer);
          const bool n1 = h.next(q, &t1), n2 = href.next(q, &t2);
          (void)h.lookup(primer);
          cctz::time_zone::civil_transition p1, p2;
          const bool r1 = h.prev(q, &p1), r2 = href.prev(q, &p2);
          EV->eval(2);
          prime_t = primer; probe = q; what = "next/prev_transition after a priming lookup";
          if (n1 != n2 || (n1 && (t1.from != t2.from || t1.to != t2.to)) || r1 != r2 || (r1 && (p1.from != p2.from || p1.to != p2.to))) {
            fc->set("prime_t", primer); fc->set("t", q); fc->set("what", what);
            *why = "[after lookup(" + vf::i64_str(primer) + ")] next/prev_transition(" + vf::i64_str(q) + ") differs from the answer of a copy that was never looked up";
            return false;
          }
        }
      }
    }
    // an instant strictly inside table interval [a_i, a_{i+1})
    prime_t = a[i] + (a[i + 1] - a[i]) / 2;
    const cctz::civil_second prime_cs = h.lookup(prime_t).cs;
    // panel of probes around the neighbouring entries, plus far ones
    std::vector<int64_t> pts;
    for (size_t j = (i >= 2 ? i - 2 : 0); j < std::min(a.size(), i + 4); ++j) for (int d : {-1, 0, 1}) if (refcal::fits64((i128)a[j] + d)) pts.push_back(a[j] + d);
    pts.push_back(a.front()); pts.push_back(a.back()); pts.push_back(a[a.size() / 2]); pts.push_back(a[(i * 7 + 3) % a.size()]);
    // entries a power-of-two number of positions away from the primed interval (a search that gallops from the
    // remembered position probes exactly there); the anchor list has a few points that are not table entries, so one
    // position further is taken as well
    for (size_t s : {(size_t)4, (size_t)8, (size_t)16, (size_t)32})
      for (size_t e : {(size_t)0, (size_t)1}) {
        if (i + s + e < a.size()) pts.push_back(a[i + s + e]);
        if (i >= s + e) pts.push_back(a[i - s - e]);
      }
    for (int64_t t : pts) {
      // instant -> civil with the hint set to interval i
      (void)h.lookup(prime_t);
      probe = t; what = "lookup(t) after priming lookup(t')";
      EV->eval();
      if (!zo::check_instant(z, h, t, why)) { fc->set("prime_t", prime_t); fc->set("t", t); fc->set("what", what); *why = "[after priming with lookup(" + vf::i64_str(prime_t) + ")] " + *why; return false; }
      // civil -> instant with the civil hint set to interval i
      const zm::LT lt = m.type_at(t);
      for (i128 cs : {(i128)t + lt.utoff, (i128)t + m.type_at((i128)t - 1).utoff - 1, (i128)t + m.type_at((i128)t - 1).utoff}) {
        (void)h.lookup(prime_cs);
        probe = cs; what = "lookup(cs) after priming lookup(cs')";
        EV->eval();
        if (!zo::check_civil(z, h, cs, why)) { fc->set("prime_t", prime_t); fc->set("csecs", cs); fc->set("what", what); *why = "[after priming with lookup(" + refcal::str(zp::civ(prime_cs)) + ")] " + *why; return false; }
      }
      if (t < a[i] || t >= a[i + 1]) EV->nt(vf::mix(zh, vf::mix((uint64_t)prime_t, (uint64_t)t)));  // stale hint present
    }
    EV->cls("hint_states_enumerated");
  }
  return true;
}

// ---- (b) ---------------------------------------------------------------------
struct Op { int kind; i128 arg; };  // 0 lookup(t) 1 lookup(cs) 2 next 3 prev 4 format 5 parse
static std::string answer(const zp::Handle& h, const Op& op) {
  char b[400];
  switch (op.kind) {
    case 0: { auto al = h.lookup((int64_t)op.arg); snprintf(b, sizeof b, "L %s %d %d %s", refcal::str(zp::civ(al.cs)).c_str(), al.offset, (int)al.is_dst, al.abbr); return b; }
    case 1: { refcal::Civil c = refcal::from_secs(op.arg); if (!zp::cs_fits(c)) return "-"; auto cl = h.lookup(zp::cs_of(c));
              snprintf(b, sizeof b, "C %d %lld %lld %lld", (int)cl.kind, (long long)zp::unix_of(cl.pre), (long long)zp::unix_of(cl.trans), (long long)zp::unix_of(cl.post)); return b; }
    case 2: case 3: { cctz::time_zone::civil_transition tr; bool ok = op.kind == 2 ? h.next((int64_t)op.arg, &tr) : h.prev((int64_t)op.arg, &tr);
              if (!ok) return "T none"; return "T " + refcal::str(zp::civ(tr.from)) + " " + refcal::str(zp::civ(tr.to)); }
    case 4: if (!h.pub) return "-"; return "F " + cctz::format("%Y-%m-%d %H:%M:%S %Ez %Z %a %j", zp::tp((int64_t)op.arg), h.tz);
    default: {
      if (!h.pub) return "-";
      refcal::Civil c = refcal::from_secs(op.arg); if (!zp::cs_fits(c) || c.y < -9999999 || c.y > 9999999) return "-";
      char in[80]; snprintf(in, sizeof in, "%lld-%02d-%02d %02d:%02d:%02d", (long long)c.y, c.m, c.d, c.hh, c.mm, c.ss);
      cctz::time_point<cctz::seconds> out;
      bool ok = cctz::parse("%Y-%m-%d %H:%M:%S", in, h.tz, &out);
      return ok ? "P " + vf::i64_str(zp::unix_of(out)) : "P fail";
    }
  }
}

static bool sequences(const zp::Zone& z, zp::Handle& h, vf::Case* fc, std::string* why) {
  const zp::Anchors an = zp::anchors_for(z.model, false);
  int n = *vf::range<int>(10, 60);
  std::vector<Op> ops;
  for (int k = 0; k < n; ++k) {
    Op op; op.kind = *rc::gen::weightedElement<int>({{4, 0}, {4, 1}, {1, 2}, {1, 3}, {1, 4}, {1, 5}});
    i128 base = an.instants.empty() || *vf::range<int>(0, 4) == 0 ? (i128)*vf::any_i64() : (i128)an.instants[*vf::index(an.instants.size())];
    base += *rc::gen::element<int64_t>(0, -1, 1, 3600, -3600, 86400, -1800, 7200, 40000000, -40000000);
    op.arg = refcal::clamp64(base);
    if (op.kind == 1 || op.kind == 5) op.arg = base + z.model.type_at(base).utoff + *rc::gen::element<int64_t>(0, 0, -1, 1, -3600, 3600);
    ops.push_back(op);
    if (op.kind == 0 && *vf::range<int>(0, 2) == 0) { Op q; q.kind = *rc::gen::element(2, 3); q.arg = op.arg; ops.push_back(q); }  // lookup(t) then next/prev(t)
  }
  // copy B: a fresh load of the same bytes (fresh hints), asked in reverse order
  const std::string name_b = zp::register_bytes(z.bytes, "c14b");
  zp::Handle hb = h.pub ? zp::open_public(name_b) : zp::open_private(name_b);
  zp::unregister(name_b);
  if (!hb.ok) return true;
  std::vector<std::string> ra(ops.size()), rb(ops.size());
  for (size_t i = 0; i < ops.size(); ++i) ra[i] = answer(h, ops[i]);
  for (size_t i = ops.size(); i-- > 0;) rb[i] = answer(hb, ops[i]);
  EV->eval(2 * ops.size());
  EV->cls("call_sequences");
  const uint64_t zh = vf::fnv(z.bytes);
  for (size_t i = 0; i < ops.size(); ++i) {
    if (i > 0) EV->nt(vf::mix(zh, vf::mix((uint64_t)ops[i].kind * 131 + (uint64_t)(ops[i].arg ^ (ops[i].arg >> 64)), (uint64_t)(ops[i - 1].arg ^ (ops[i - 1].arg >> 64)))));
    if (ra[i] != rb[i]) {
      static const char* kn[] = {"lookup(t)", "lookup(cs)", "next_transition", "prev_transition", "format", "parse"};
      *why = std::string("call #") + std::to_string(i) + " " + kn[ops[i].kind] + "(" + vf::i128_str(ops[i].arg) + ") answered '" + ra[i] +
             "' in the forward-ordered copy but '" + rb[i] + "' in a freshly loaded copy asked in reverse order";
      std::string seq;
      for (auto& o : ops) seq += std::to_string(o.kind) + ":" + vf::i128_str(o.arg) + " ";
      fc->set("ops", seq); fc->set("failing_index", (i128)i);
      return false;
    }
  }
  return true;
}

static bool replay_ops(const zp::Zone& z, const std::string& seq, std::string* why) {
  std::vector<Op> ops; std::istringstream is(seq); std::string tok;
  while (is >> tok) { size_t c = tok.find(':'); ops.push_back(Op{atoi(tok.substr(0, c).c_str()), vf::str_i128(tok.substr(c + 1))}); }
  zp::Handle ha = zp::open_public(z.load_name);
  const std::string name_b = zp::register_bytes(z.bytes, "c14b");
  zp::Handle hb = zp::open_public(name_b);
  if (!ha.ok || !hb.ok) return true;
  std::vector<std::string> ra(ops.size()), rb(ops.size());
  for (size_t i = 0; i < ops.size(); ++i) ra[i] = answer(ha, ops[i]);
  for (size_t i = ops.size(); i-- > 0;) rb[i] = answer(hb, ops[i]);
  for (size_t i = 0; i < ops.size(); ++i) if (ra[i] != rb[i]) { *why = "call #" + std::to_string(i) + " answers differ: '" + ra[i] + "' vs '" + rb[i] + "'"; return false; }
  return true;
}

static bool check_zone(const zp::Zone& z, zp::Handle& h, bool in_rc, bool full, vf::Case* fc, std::string* why) {
  fc->set("sweep", full ? "full" : "thin");
  if (!h.ok) return true;
  if (!hint_enumeration(z, h, full, fc, why)) return false;
  if (in_rc && !sequences(z, h, fc, why)) return false;
  if (EV->want_sample(z.kind)) EV->sample(z.kind, z.kind + " zone (" + zc::zone_class(z.model) + "): every table interval primed before each probe of the panel, both directions");
  return true;
}

// ---- (c) cache model -----------------------------------------------------------
// The loader's cache is process-wide state, so the loads made by earlier cases are part of every later case's
// history.  The harness counts them; a case records that count, and a replay in a fresh process first re-creates a
// history of the same size (names that fail to load / names that load), so that a failure that needs a long history
// reproduces from the case alone.
static long g_hist_failed = 0, g_hist_ok = 0;
static void make_history(long failed, long ok, const std::string& valid_bytes) {
  zp::MemStore& store = zp::MemStore::get();
  static long hseq = 0; ++hseq;
  cctz::time_zone tz;
  for (long i = 0; i < failed; ++i) { cctz::load_time_zone("mem:c14hist-missing/" + std::to_string(hseq) + "/" + std::to_string(i), &tz); ++g_hist_failed; }
  for (long i = 0; i < ok; ++i) {
    const std::string name = "mem:c14hist-valid/" + std::to_string(hseq) + "/" + std::to_string(i);
    { std::lock_guard<std::mutex> l(store.mu); store.data[name] = valid_bytes; }
    cctz::load_time_zone(name, &tz); ++g_hist_ok;
    { std::lock_guard<std::mutex> l(store.mu); store.data.erase(name); }
  }
}
static bool cache_sequence(const std::vector<std::pair<int, int>>& cmds, const std::string& valid_bytes, std::string* why) {
  // names are made unique per sequence so that "first load" is really first
  static long seq = 0; ++seq;
  std::map<std::string, std::string> names;  // key -> actual name
  struct St { bool loaded = false; bool ok = false; cctz::time_zone tz; };
  std::map<std::string, St> model;
  zp::MemStore& store = zp::MemStore::get();
  for (auto& c : cmds) {
    std::string name; bool expect_ok; bool uses_source = true;
    switch (c.first) {
      case 0: name = "mem:c14valid/" + std::to_string(seq) + "/" + std::to_string(c.second); { std::lock_guard<std::mutex> l(store.mu); store.data[name] = valid_bytes; } expect_ok = true; break;
      case 1: name = "mem:c14missing/" + std::to_string(seq) + "/" + std::to_string(c.second); expect_ok = false; break;
      case 2: name = "mem:c14garbage/" + std::to_string(seq) + "/" + std::to_string(c.second); { std::lock_guard<std::mutex> l(store.mu); store.data[name] = "TZif-but-not-really"; } expect_ok = false; break;
      case 3: { char b[40]; int o = c.second * 977 + 1; snprintf(b, sizeof b, "Fixed/UTC+%02d:%02d:%02d", o / 3600 % 24, o / 60 % 60, o % 60); name = b; expect_ok = true; uses_source = false; break; }
      default: name = c.second % 2 ? "UTC" : "UTC0"; expect_ok = true; uses_source = false; break;
    }
    St& st = model[name];
    const long opens0 = store.opens.load();
    cctz::time_zone tz;
    const bool ok = cctz::load_time_zone(name, &tz);
    const long used = store.opens.load() - opens0;
    EV->eval();
    if (ok != expect_ok) { *why = "load_time_zone('" + name + "') returned " + (ok ? "true" : "false"); return false; }
    if (!ok && tz != cctz::utc_time_zone()) { *why = "failed load of '" + name + "' did not set the result to UTC"; return false; }
    if (!uses_source && used != 0) { *why = "data source consulted for '" + name + "'"; return false; }
    if (!st.loaded && uses_source) { if (ok) ++g_hist_ok; else ++g_hist_failed; }
    if (st.loaded) {
      if (used != 0) { *why = "repeat load of '" + name + "' consulted the data source again (" + std::to_string(used) + " time(s))"; return false; }
      if (tz != st.tz) { *why = "repeat load of '" + name + "' returned a time_zone that is not equal to the first one"; return false; }
      if (ok != st.ok) { *why = "repeat load of '" + name + "' changed its success flag"; return false; }
      EV->cls("repeat_load");
    } else if (uses_source && used != 1) {
      *why = "first load of '" + name + "' consulted the data source " + std::to_string(used) + " times"; return false;
    }
    st.loaded = true; st.ok = ok; st.tz = tz;
  }
  return true;
}

static std::string g_valid_bytes;

static bool replay(const vf::Case& c, std::string* why) {
  vf::Evidence ev; EV = &ev;
  if (c.has("cache_cmds")) {
    std::vector<std::pair<int, int>> cmds; std::istringstream is(c.get("cache_cmds")); std::string tok;
    while (is >> tok) { size_t p = tok.find(':'); cmds.push_back({atoi(tok.substr(0, p).c_str()), atoi(tok.substr(p + 1).c_str())}); }
    make_history((long)c.num("history_failed_names"), (long)c.num("history_loaded_names"), vf::unhex(c.get("valid_hex")));
    return cache_sequence(cmds, vf::unhex(c.get("valid_hex")), why);
  }
  zp::Zone z = zp::zone_from_label(c.get("zone"));
  if (!z.model.in_domain()) return true;
  if (c.has("ops")) return replay_ops(z, c.get("ops"), why);
  zp::Handle h = zp::open_public(z.load_name);
  if (!h.ok) return true;
  vf::Case fc;
  return hint_enumeration(z, h, c.get("sweep", "full") == "full", &fc, why);
}

static void run(const vf::Args& a, vf::Evidence& ev, vf::Reporter& rep) {
  EV = &ev; zo::ARGS = &a;
  ev.rule = "(a) every zone (shipped, zic, synthetic W): for each table interval i (all recorded entries and rule years; thinned to "
            "~150 per zone in quick for synthetic zones) one priming query inside i precedes EVERY probe of a panel (entries i-2..i+3 "
            "at -1/0/+1 s, first, last, middle, a far one), separately for lookup(time_point) and lookup(civil_second); answers "
            "must equal the history-free model. (b) rapidcheck call sequences (lookup both ways, next/prev, format, parse; 10-60 "
            "calls) answered by one copy in order and by a freshly loaded copy of the same bytes in reverse order. (c) rapidcheck "
            "load() sequences over valid/missing/garbage/fixed/UTC names with a counting data source, after a process-wide "
            "history of up to thousands of earlier loads (its size is part of the case, a replay re-creates it). Non-trivial = probe in a "
            "different interval than the priming query (stale hint), a call following another call, or a repeated load.";
  zc::Ctx c{&a, &ev, &rep};
  zc::ZoneProp p;
  p.check_zone = check_zone;
  zc::run_all(c, p, 150, 2500);
  // (c)
  std::vector<std::string> files = zp::shipped_files();
  g_valid_bytes = files.empty() ? std::string() : vf::read_file(files[files.size() / 2]);
  long budget = a.budget(300, 5000);
  vf::rc_run("C14.cache", a.stream_seed(7), (int)budget, rep, [&]() {
    int n = *vf::range<int>(2, 25);
    std::vector<std::pair<int, int>> cmds;
    for (int i = 0; i < n; ++i) cmds.push_back({*vf::range<int>(0, 4), *vf::range<int>(0, 3)});
    std::string text; for (auto& c : cmds) text += std::to_string(c.first) + ":" + std::to_string(c.second) + " ";
    // one sequence in 25 is preceded by a long history of its own (hundreds to thousands of names that failed or
    // loaded), on top of what earlier cases left in the process-wide cache
    const int hk = *vf::range<int>(0, 24);
    if (hk == 0) { make_history(*rc::gen::element<long>(300, 600, 1100, 5000), *rc::gen::element<long>(0, 50, 300), g_valid_bytes); EV->cls("cache_sequence_after_generated_long_history"); }
    vf::Case cc; cc.set("cache_cmds", text); cc.set("valid_hex", vf::hex(g_valid_bytes));
    cc.set("history_failed_names", g_hist_failed); cc.set("history_loaded_names", g_hist_ok);
    vf::CurrentScope cur([&]() { return cc; });
    EV->nt(vf::fnv(text));
    EV->cls("cache_sequences");
    std::string why;
    if (!cache_sequence(cmds, g_valid_bytes, &why)) { rep.failing(cc, why); RC_FAIL(why); }
  });
}

int main(int argc, char** argv) { return vf::main_dispatch(argc, argv, "C14", run, replay); }
