// C20: a user-supplied zone_info_source_factory is invoked on the thread that
// called load_time_zone, at most once per name in the life of the process,
// never concurrently with another invocation, and not at all for UTC / fixed
// names.  Schedules are owned by the harness: every loader thread is parked
// inside the factory; a schedule is a sequence of {start thread i, release
// thread j}.  Each schedule runs in a forked child (the name cache is
// process-global and "once per process" is part of the property).
#include <dirent.h>
#include <sys/syscall.h>
#include <sys/wait.h>
#include <unistd.h>
#include <atomic>
#include <condition_variable>
#include <thread>
#include "cctz/time_zone.h"
#include "cctz/zone_info_source.h"
#include "common.h"
#include "rcutil.h"

// ---- the instrumented factory ---------------------------------------------------------
namespace {
struct Shared {
  std::mutex m;
  std::condition_variable cv;
  bool parked[8] = {}, released[8] = {}, finished[8] = {}, started[8] = {};
  pid_t tid[8] = {};
  std::map<std::string, int> calls;
  int inflight = 0, max_inflight = 0;
  std::vector<std::string> problems;
  bool park_enabled = true;
  std::string valid_bytes;
};
Shared* S;
thread_local int tl_index = -1;          // index of the harness thread, -1 = not a harness loader
thread_local std::string tl_loading;     // the name this thread is currently passing to load_time_zone
thread_local int tl_depth = 0;           // factory invocations active on this thread (a factory may itself load another zone)

class BytesSource : public cctz::ZoneInfoSource {
 public:
  explicit BytesSource(const std::string& b) : b_(b) {}
  std::size_t Read(void* p, std::size_t n) override { n = std::min(n, b_.size() - pos_); memcpy(p, b_.data() + pos_, n); pos_ += n; return n; }
  int Skip(std::size_t n) override { pos_ += std::min(n, b_.size() - pos_); return 0; }
 private:
  std::string b_; size_t pos_ = 0;
};

std::unique_ptr<cctz::ZoneInfoSource> gate_factory(
    const std::string& name, const std::function<std::unique_ptr<cctz::ZoneInfoSource>(const std::string&)>&) {
  std::unique_lock<std::mutex> l(S->m);
  S->calls[name]++;
  // an invocation nested inside another one on the same thread (the outer factory is loading a zone itself) is not
  // "concurrent"; two threads inside the factory are
  const bool outermost = tl_depth == 0;
  ++tl_depth;
  if (outermost) {
    if (++S->inflight > S->max_inflight) S->max_inflight = S->inflight;
    if (S->inflight > 1) S->problems.push_back("factory invoked concurrently with another invocation (for '" + name + "')");
  }
  if (tl_loading != name) S->problems.push_back("factory for '" + name + "' invoked on a thread that is not inside load_time_zone('" + name + "') (thread is loading '" + tl_loading + "')");
  {
    // internally resolved names: UTC, UTC0 and well-formed fixed-offset names of at most 24 h
    bool internal = name == "UTC" || name == "UTC0";
    if (name.size() == 18 && name.compare(0, 9, "Fixed/UTC") == 0 && (name[9] == '+' || name[9] == '-') && name[12] == ':' && name[15] == ':') {
      bool digits = true; for (int i : {10, 11, 13, 14, 16, 17}) digits = digits && isdigit((unsigned char)name[i]);
      if (digits) { int tot = ((name[10] - '0') * 10 + (name[11] - '0')) * 3600 + ((name[13] - '0') * 10 + (name[14] - '0')) * 60 + (name[16] - '0') * 10 + (name[17] - '0'); internal = tot <= 86400; }
    }
    if (internal) S->problems.push_back("factory invoked for internally resolved name '" + name + "'");
  }
  if (outermost && name.find("/alias/") != std::string::npos) {
    // a factory that resolves an alias: it loads the target zone itself (same thread, nested) and then goes on working
    std::string target = name; target.replace(target.find("/alias/"), 7, "/valid-target-of-alias/");
    const std::string outer = tl_loading;
    l.unlock();
    tl_loading = target;
    cctz::time_zone ttz;
    if (!cctz::load_time_zone(target, &ttz)) { std::lock_guard<std::mutex> g(S->m); S->problems.push_back("nested load of '" + target + "' from inside the factory failed"); }
    tl_loading = outer;
    l.lock();
  }
  const int idx = tl_index;
  if (outermost && idx >= 0 && S->park_enabled) {
    S->parked[idx] = true;
    S->cv.notify_all();
    S->cv.wait(l, [&] { return S->released[idx]; });
    S->parked[idx] = false;
  }
  if (outermost) --S->inflight;
  --tl_depth;
  const bool valid = name.find("valid") != std::string::npos || name.find("/alias/") != std::string::npos;
  l.unlock();
  if (valid) return std::unique_ptr<cctz::ZoneInfoSource>(new BytesSource(S->valid_bytes));
  if (name.find("garbage") != std::string::npos) return std::unique_ptr<cctz::ZoneInfoSource>(new BytesSource("TZif-not"));
  return nullptr;
}
}  // namespace
namespace cctz_extension {
ZoneInfoSourceFactory zone_info_source_factory = gate_factory;
}

// ---- schedule execution (in the child) ---------------------------------------------------
struct Sched {
  std::vector<std::string> names;   // name loaded by thread i
  std::vector<int> actions;         // +(i+1) = start thread i, -(j+1) = release thread j
  std::vector<int> tail;            // repeat loads afterwards (thread indices whose names are loaded again)
  int hist_failed = 0, hist_valid = 0;  // "the life of the process": distinct names loaded (failing / valid) before the schedule starts
};
static std::string sched_text(const Sched& s) {
  std::string t = "names=";
  for (auto& n : s.names) t += n + ",";
  t += " actions=";
  for (int a : s.actions) t += (a > 0 ? "S" + std::to_string(a - 1) : "R" + std::to_string(-a - 1)) + " ";
  t += "tail=";
  for (int x : s.tail) t += std::to_string(x) + ",";
  if (s.hist_failed || s.hist_valid) t += " history=" + std::to_string(s.hist_failed) + " failing + " + std::to_string(s.hist_valid) + " valid names";
  return t;
}
static char task_state(pid_t tid) {
  char path[64], buf[256];
  snprintf(path, sizeof path, "/proc/self/task/%d/stat", (int)tid);
  FILE* f = fopen(path, "r");
  if (!f) return '?';
  size_t n = fread(buf, 1, sizeof buf - 1, f); fclose(f); buf[n] = 0;
  char* p = strrchr(buf, ')');
  return p && p[1] == ' ' ? p[2] : '?';
}
// every started loader is finished, parked in the factory, or blocked (sleeping outside the factory)
static bool wait_quiescent(int k, int* blocked_seen) {
  for (int iter = 0; iter < 4000; ++iter) {
    bool all = true;
    {
      std::lock_guard<std::mutex> l(S->m);
      for (int i = 0; i < k; ++i) {
        if (!S->started[i] || S->finished[i]) continue;
        if (S->parked[i] && !S->released[i]) continue;
        all = false;
      }
    }
    if (all) return true;
    // a thread that is neither finished nor parked: is it asleep (blocked on a lock inside cctz)?
    bool all_asleep = true;
    for (int rep = 0; rep < 6 && all_asleep; ++rep) {
      std::lock_guard<std::mutex> l(S->m);
      for (int i = 0; i < k; ++i) {
        if (!S->started[i] || S->finished[i] || (S->parked[i] && !S->released[i])) continue;
        if (S->tid[i] == 0 || task_state(S->tid[i]) != 'S') all_asleep = false;
      }
      if (all_asleep) usleep(300);
    }
    if (all_asleep) { ++*blocked_seen; return true; }
    usleep(100);
  }
  return false;  // not realised within the poll budget
}

// returns a one-line result: "OK ..." or "VIOLATION ..."
static std::string run_schedule(const Sched& sc, const std::string& valid_bytes) {
  S = new Shared;
  S->valid_bytes = valid_bytes;
  const int k = (int)sc.names.size();
  std::vector<std::thread> th(k);
  std::vector<cctz::time_zone> got(k);
  std::vector<int> ok(k, -1);
  int blocked_seen = 0, not_realised = 0;
  bool overlap_same_name = false;
  auto body = [&](int i) {
    tl_index = i;
    tl_loading = sc.names[i];
    { std::lock_guard<std::mutex> l(S->m); S->tid[i] = (pid_t)syscall(SYS_gettid); S->started[i] = true; }
    cctz::time_zone tz;
    ok[i] = cctz::load_time_zone(sc.names[i], &tz) ? 1 : 0;
    got[i] = tz;
    tl_loading.clear();
    { std::lock_guard<std::mutex> l(S->m); S->finished[i] = true; }
  };
  // earlier life of the process: many distinct names already went through the loader (controlling thread, no parking)
  auto plain_load = [&](const std::string& name) { tl_loading = name; cctz::time_zone tz; cctz::load_time_zone(name, &tz); tl_loading.clear(); };
  for (int i = 0; i < sc.hist_failed; ++i) plain_load((i % 3 ? "c20/missing/h" : "c20/garbage/h") + std::to_string(i));
  for (int i = 0; i < sc.hist_valid; ++i) plain_load("c20/valid/h" + std::to_string(i));
  for (int a : sc.actions) {
    if (a > 0) {
      const int i = a - 1;
      {
        std::lock_guard<std::mutex> l(S->m);
        for (int j = 0; j < k; ++j)
          if (j != i && S->started[j] && !S->finished[j] && !S->released[j] && sc.names[j] == sc.names[i]) overlap_same_name = true;
      }
      th[i] = std::thread(body, i);
      // wait until the thread has registered itself
      for (int w = 0; w < 20000; ++w) { { std::lock_guard<std::mutex> l(S->m); if (S->started[i]) break; } usleep(50); }
      if (!wait_quiescent(k, &blocked_seen)) ++not_realised;
    } else {
      const int j = -a - 1;
      bool can;
      { std::lock_guard<std::mutex> l(S->m); can = S->started[j] && S->parked[j] && !S->released[j]; if (can) { S->released[j] = true; S->cv.notify_all(); } }
      if (!can) { ++not_realised; continue; }  // e.g. the thread is blocked behind another loader, or never reached the factory
      if (!wait_quiescent(k, &blocked_seen)) ++not_realised;
    }
  }
  // let everything finish
  { std::lock_guard<std::mutex> l(S->m); for (int i = 0; i < 8; ++i) S->released[i] = true; S->park_enabled = false; S->cv.notify_all(); }
  for (int i = 0; i < k; ++i) if (th[i].joinable()) th[i].join();
  // tail of repeat loads on the controlling thread and on fresh threads
  tl_index = -1;
  for (size_t n = 0; n < sc.tail.size(); ++n) {
    const std::string name = sc.names[sc.tail[n] % k];
    auto again = [&]() { tl_loading = name; cctz::time_zone tz; cctz::load_time_zone(name, &tz); tl_loading.clear(); };
    if (n % 2) { std::thread t(again); t.join(); } else again();
  }
  // ... and names from that earlier life are asked for again (first, last, every 61st)
  for (int i = 0; i < sc.hist_failed; ++i) if (i == 0 || i == sc.hist_failed - 1 || i % 61 == 0) plain_load((i % 3 ? "c20/missing/h" : "c20/garbage/h") + std::to_string(i));
  for (int i = 0; i < sc.hist_valid; ++i) if (i == 0 || i == sc.hist_valid - 1 || i % 61 == 0) plain_load("c20/valid/h" + std::to_string(i));
  std::string problems;
  {
    std::lock_guard<std::mutex> l(S->m);
    for (auto& p : S->problems) problems += p + "; ";
    int shown = 0;
    for (auto& c : S->calls) if (c.second > 1 && shown++ < 5) problems += "factory invoked " + std::to_string(c.second) + " times for '" + c.first + "'; ";
  }
  // all loaders of one name hold equal zones and equal success flags (belongs to the once-per-name story)
  for (int i = 0; i < k; ++i) for (int j = i + 1; j < k; ++j)
    if (sc.names[i] == sc.names[j] && ok[i] >= 0 && ok[j] >= 0 && (ok[i] != ok[j] || got[i] != got[j])) problems += "loaders " + std::to_string(i) + "/" + std::to_string(j) + " of '" + sc.names[i] + "' obtained different results; ";
  char info[160];
  snprintf(info, sizeof info, "max_inflight=%d blocked_seen=%d not_realised=%d overlap=%d", S->max_inflight, blocked_seen, not_realised, (int)overlap_same_name);
  return (problems.empty() ? std::string("OK ") : "VIOLATION " + problems) + info;
}

static std::string run_in_child(const Sched& sc, const std::string& valid_bytes) {
  int fd[2];
  if (pipe(fd) != 0) return "HARNESS pipe failed";
  fflush(nullptr);
  pid_t pid = fork();
  if (pid == 0) {
    close(fd[0]);
    alarm(60);
    std::string r = run_schedule(sc, valid_bytes);
    (void)!write(fd[1], r.data(), r.size());
    _exit(0);
  }
  close(fd[1]);
  std::string out; char buf[512]; ssize_t n;
  while ((n = read(fd[0], buf, sizeof buf)) > 0) out.append(buf, n);
  close(fd[0]);
  int st = 0; waitpid(pid, &st, 0);
  if (out.empty()) out = "HARNESS child died (status " + std::to_string(st) + ")";
  return out;
}

// ---- schedule enumeration -------------------------------------------------------------------
static void gen_orders(int k, std::vector<int>& cur, std::vector<int>& st, std::vector<std::vector<int>>* out) {
  // st[i]: 0 = not started, 1 = started, 2 = released
  bool any = false;
  for (int i = 0; i < k; ++i) {
    if (st[i] == 0) { any = true; st[i] = 1; cur.push_back(i + 1); gen_orders(k, cur, st, out); cur.pop_back(); st[i] = 0; }
    else if (st[i] == 1) { any = true; st[i] = 2; cur.push_back(-(i + 1)); gen_orders(k, cur, st, out); cur.pop_back(); st[i] = 1; }
  }
  if (!any) out->push_back(cur);
}
static void gen_partitions(int k, std::vector<int>& lab, int next, std::vector<std::vector<int>>* out) {
  if ((int)lab.size() == k) { out->push_back(lab); return; }
  for (int v = 0; v <= next; ++v) { lab.push_back(v); gen_partitions(k, lab, std::max(next, v + 1), out); lab.pop_back(); }
}
static std::string name_for(int label, int kindsel) {
  // kind of each name class: mostly valid data, sometimes missing / garbage / fixed / UTC
  static const char* kinds[] = {"valid", "alias", "missing", "garbage", "fixed", "utc", "lookalike", "fixed24"};
  const char* kd = kinds[(kindsel + label * 5) % 8];
  if (!strcmp(kd, "fixed")) { char b[32]; snprintf(b, sizeof b, "Fixed/UTC+%02d:00:00", 1 + label); return b; }
  if (!strcmp(kd, "fixed24")) return label % 2 ? "Fixed/UTC-24:00:00" : "Fixed/UTC+24:00:00";  // the limits of the fixed-offset range
  // names that look like fixed-offset names but are not (out of range / malformed): they DO go to the data source
  if (!strcmp(kd, "lookalike")) { static const char* la[] = {"Fixed/UTC+24:00:01", "Fixed/UTC-1:00", "Fixed/UTC+99:99:99", "Fixed/UTC-24:00:01"}; return la[label % 4]; }
  if (!strcmp(kd, "utc")) return label % 2 ? "UTC0" : "UTC";
  return std::string("c20/") + kd + "/" + std::to_string(label);
}

static std::string g_valid;
static bool replay(const vf::Case& c, std::string* why) {
  Sched sc;
  std::istringstream n(c.get("names")); std::string tok;
  while (std::getline(n, tok, ',')) if (!tok.empty()) sc.names.push_back(tok);
  std::istringstream a(c.get("actions"));
  while (a >> tok) sc.actions.push_back(tok[0] == 'S' ? atoi(tok.c_str() + 1) + 1 : -(atoi(tok.c_str() + 1) + 1));
  std::istringstream t(c.get("tail"));
  while (std::getline(t, tok, ',')) if (!tok.empty()) sc.tail.push_back(atoi(tok.c_str()));
  sc.hist_failed = (int)c.num("history_failed_names"); sc.hist_valid = (int)c.num("history_valid_names");
  std::string r = run_in_child(sc, vf::unhex(c.get("valid_hex")));
  if (r.compare(0, 9, "VIOLATION") == 0) { *why = r; return false; }
  return true;
}

static void run(const vf::Args& a, vf::Evidence& ev, vf::Reporter& rep) {
  ev.rule = "exhaustive: for k = 1..3 (quick) / 1..4 (thorough) loader threads, every order of {start thread i, release thread j} "
            "(a thread can only be released after it was started; each is parked inside the factory) x every partition of the "
            "threads into same-name groups x name kinds (valid data, an alias whose factory invocation itself loads the target zone before it goes on, missing, garbage, fixed-offset incl. +-24h, UTC, fixed-offset look-alikes that are not fixed names), each schedule in a "
            "forked child, followed by repeat loads on the controlling thread and on fresh threads; the two-thread schedules are also run "
            "late in the life of a process (after 300-9000 distinct failing/valid names were loaded, a sample of which is asked for again); quick additionally samples "
            "k = 4 schedules with rapidcheck. Observed in the factory: calling thread is inside load_time_zone of that name, "
            "invocations per name, in-flight count, calls for internally resolved names. Non-trivial = >= 2 threads had started a "
            "first load of the same name before the first one was released (observed), distinct by (names, order).";
  { const char* d = getenv("TZDIR"); g_valid = vf::read_file(std::string(d ? d : "/repo/testdata/zoneinfo") + "/America/New_York"); }
  std::vector<Sched> all;
  const int kmax = a.thorough() ? 4 : 3;
  for (int k = 1; k <= kmax; ++k) {
    std::vector<std::vector<int>> orders, parts;
    std::vector<int> cur, st(k, 0), lab;
    gen_orders(k, cur, st, &orders);
    gen_partitions(k, lab, 0, &parts);
    for (auto& p : parts)
      for (int kindsel = 0; kindsel < (k <= 2 ? 8 : 3); ++kindsel)
        for (auto& o : orders) {
          Sched s;
          for (int i = 0; i < k; ++i) s.names.push_back(name_for(p[i], kindsel));
          s.actions = o;
          for (int i = 0; i < k; ++i) s.tail.push_back(i);
          s.tail.push_back(0);
          all.push_back(s);
        }
  }
  // long-lived processes: the same two-thread schedules after hundreds to thousands of names have been loaded
  {
    std::vector<std::vector<int>> orders, parts;
    std::vector<int> cur, st(2, 0), lab;
    gen_orders(2, cur, st, &orders); gen_partitions(2, lab, 0, &parts);
    const int hist[][2] = {{600, 0}, {0, 300}, {1100, 40}, {4200, 10}, {9000, 0}, {300, 300}};
    size_t n = 0;
    for (auto& h : hist)
      for (auto& p : parts)
        for (int kindsel : {0, 2, 3}) {
          Sched s2;
          for (int i = 0; i < 2; ++i) s2.names.push_back(name_for(p[i], kindsel));
          s2.actions = orders[n++ % orders.size()];
          s2.tail = {0, 1, 0};
          s2.hist_failed = h[0]; s2.hist_valid = h[1];
          all.push_back(s2);
        }
  }
  if (a.shard == 0) ev.extra["schedules_in_the_enumeration"] = std::to_string(all.size());
  uint64_t blocked = 0, unrealised = 0;
  auto exec = [&](const Sched& s, bool from_rc) -> bool {
    vf::Case c; c.set("names", ""); {
      std::string n; for (auto& x : s.names) n += x + ","; c.set("names", n);
      std::string act; for (int v : s.actions) act += (v > 0 ? "S" + std::to_string(v - 1) : "R" + std::to_string(-v - 1)) + " "; c.set("actions", act);
      std::string tl; for (int v : s.tail) tl += std::to_string(v) + ","; c.set("tail", tl);
      c.set("valid_hex", vf::hex(g_valid));
      c.set("history_failed_names", s.hist_failed); c.set("history_valid_names", s.hist_valid);
    }
    const std::string r = run_in_child(s, g_valid);
    ev.eval();
    int mi = 0, bs = 0, nr = 0, ov = 0;
    const char* p = strstr(r.c_str(), "max_inflight=");
    if (p) sscanf(p, "max_inflight=%d blocked_seen=%d not_realised=%d overlap=%d", &mi, &bs, &nr, &ov);
    blocked += bs; unrealised += nr;
    if (ov) { ev.nt(vf::fnv(sched_text(s))); ev.cls("overlapping_first_loads_of_one_name"); }
    if (nr) ev.cls("schedule_not_fully_realised(loader_blocked_or_not_parked)");
    if (s.hist_failed + s.hist_valid) ev.cls(s.hist_failed + s.hist_valid >= 4000 ? "schedule_after_history_of_4000+_names" : "schedule_after_history_of_300-1200_names");
    ev.cls("threads_" + std::to_string(s.names.size()));
    if (ev.want_sample("k" + std::to_string(s.names.size()))) ev.sample("k" + std::to_string(s.names.size()), sched_text(s) + " -> " + r);
    if (r.compare(0, 9, "VIOLATION") == 0 || r.compare(0, 7, "HARNESS") == 0) {
      rep.failing(c, r);
      if (!from_rc) rep.commit();
      return false;
    }
    return true;
  };
  int fails = 0;
  for (size_t i = 0; i < all.size() && fails < 2; ++i) {
    if ((int)(i % a.nshards) != a.shard) continue;
    if (!exec(all[i], false)) ++fails;
  }
  ev.exhaustive = a.thorough();
  if (!a.thorough() && fails == 0) {
    // sampled k = 4 schedules
    std::vector<std::vector<int>> orders, parts;
    { std::vector<int> cur, st(4, 0), lab; gen_orders(4, cur, st, &orders); gen_partitions(4, lab, 0, &parts); }
    vf::rc_run("C20.k4_sample", a.stream_seed(1), (int)a.budget(150, 300), rep, [&]() {
      Sched s;
      const auto& p = parts[*vf::index(parts.size())];
      const int kindsel = *vf::range<int>(0, 7);
      for (int i = 0; i < 4; ++i) s.names.push_back(name_for(p[i], kindsel));
      s.actions = orders[*vf::index(orders.size())];
      int nt = *vf::range<int>(0, 6);
      for (int i = 0; i < nt; ++i) s.tail.push_back(*vf::range<int>(0, 3));
      if (*vf::range<int>(0, 7) == 0) { s.hist_failed = *rc::gen::element(0, 100, 700, 5000); s.hist_valid = *rc::gen::element(0, 0, 20, 200); }
      if (!exec(s, true)) RC_FAIL("schedule violates the factory contract");
    });
  }
  ev.extra["loader_blocked_observations"] = std::to_string(blocked);
  ev.extra["schedule_steps_not_realised"] = std::to_string(unrealised);
}

int main(int argc, char** argv) { return vf::main_dispatch(argc, argv, "C20", run, replay); }
