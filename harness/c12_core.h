// C12 core: load arbitrary bytes as zone data and exercise the result.
// Shared by the libFuzzer target, the rapidcheck mutation binary, the
// init-pattern differential probe and replay.
#pragma once
#include "zonepool.h"

namespace c12 {
using vf::i128;

struct Outcome { bool loaded = false; uint64_t fp = 0; std::string desc; };

inline uint64_t mixs(uint64_t h, const std::string& s) { return vf::fnv(s, h); }

// Exercise a loaded zone; every call must be well-defined. Returns a fingerprint of all answers.
inline uint64_t probe_panel(const cctz::TimeZoneIf& z, const zm::TzFile& f) {
  uint64_t h = 1469598103934665603ull;
  std::vector<int64_t> ts = {0, 1, -1, INT64_MIN, INT64_MAX, INT64_MIN + 1, INT64_MAX - 1, -(1LL << 59), (1LL << 59), -(1LL << 59) - 1,
                             (1LL << 31) - 1, 1LL << 31, -(1LL << 31), 1LL << 62, -(1LL << 62), 4102444800LL, 1700000000LL, 253402300800LL};
  if (f.ok) {
    size_t n = f.trans.size(), step = n > 64 ? n / 64 : 1;
    for (size_t i = 0; i < n; i += step) for (int d : {-1, 0, 1}) { i128 t = (i128)f.trans[i].t + d; if (refcal::fits64(t)) ts.push_back((int64_t)t); }
    if (n) for (i128 k : {(i128)1, (i128)2, (i128)401}) { i128 t = (i128)f.trans.back().t + k * 12622780800LL; if (refcal::fits64(t)) ts.push_back((int64_t)t); }
  }
  cctz::time_zone::civil_transition tr;
  for (int64_t t : ts) {
    const auto al = z.BreakTime(zp::tp(t));
    char b[200];
    snprintf(b, sizeof b, "%lld|%lld-%d-%d %d:%d:%d|%d|%d|", (long long)t, (long long)al.cs.year(), al.cs.month(), al.cs.day(), al.cs.hour(), al.cs.minute(), al.cs.second(), al.offset, (int)al.is_dst);
    h = mixs(h, b); h = mixs(h, al.abbr ? std::string(al.abbr, strnlen(al.abbr, 64)) : std::string("(null)"));
    for (int d : {-1, 0, 1}) {
      const auto cl = z.MakeTime(al.cs + d);
      snprintf(b, sizeof b, "c%d|%lld|%lld|%lld", (int)cl.kind, (long long)zp::unix_of(cl.pre), (long long)zp::unix_of(cl.trans), (long long)zp::unix_of(cl.post));
      h = mixs(h, b);
    }
    bool n1 = z.NextTransition(zp::tp(t), &tr);
    if (n1) { snprintf(b, sizeof b, "n%lld-%d-%d", (long long)tr.to.year(), tr.to.month(), tr.to.day()); h = mixs(h, b); }
    bool p1 = z.PrevTransition(zp::tp(t), &tr);
    if (p1) { snprintf(b, sizeof b, "p%lld-%d-%d", (long long)tr.from.year(), tr.from.month(), tr.from.day()); h = mixs(h, b); }
  }
  for (const cctz::civil_second& cs : {cctz::civil_second::min(), cctz::civil_second::max(), cctz::civil_second(1970, 1, 1, 0, 0, 0), cctz::civil_second(2400, 2, 29, 23, 59, 59)}) {
    const auto cl = z.MakeTime(cs);
    char b[120]; snprintf(b, sizeof b, "C%d|%lld|%lld|%lld", (int)cl.kind, (long long)zp::unix_of(cl.pre), (long long)zp::unix_of(cl.trans), (long long)zp::unix_of(cl.post));
    h = mixs(h, b);
  }
  // a bounded forward chain
  int64_t t = INT64_MIN;
  for (int i = 0; i < 300 && z.NextTransition(zp::tp(t), &tr); ++i) {
    const auto cl = z.MakeTime(tr.to);
    int64_t nt = zp::unix_of(cl.trans);
    char b[80]; snprintf(b, sizeof b, "k%lld", (long long)nt); h = mixs(h, b);
    if (nt <= t) break;
    t = nt;
  }
  h = mixs(h, z.Description()); h = mixs(h, z.Version());
  return h;
}

// Input-based pre-filters for recorded known findings (counted by the caller).
inline std::string known_class(const std::string& bytes, const std::vector<std::string>& active) {
  (void)bytes; (void)active;
  return "";
}

// How much data do the headers declare?  Deliberately lenient (any magic, any non-NUL version byte means a second
// header follows): this only decides whether an input belongs to the "needs more memory than the input is long" class.
inline size_t declared_data_len(const std::string& b) {
  auto counts = [&](size_t off, size_t tl, size_t* len) -> bool {
    if (b.size() < off + 44) return false;
    const unsigned char* p = (const unsigned char*)b.data() + off;
    unsigned long long c[6];
    for (int i = 0; i < 6; ++i) c[i] = zm::detail::be32(p + 20 + 4 * i);
    *len = (size_t)(c[3] * (tl + 1) + c[4] * 6 + c[5] + c[2] * (tl + 4) + c[1] + c[0]);
    return true;
  };
  size_t n1 = 0, n2 = 0;
  if (!counts(0, 4, &n1)) return 0;
  if (b.size() > 4 && b[4] != 0 && n1 < (1u << 24)) { if (counts(44 + n1, 8, &n2)) return std::max(n1, n2); }
  return n1;
}

inline Outcome load_once(const std::string& bytes, const std::string& hint, const zm::TzFile& f) {
  Outcome o;
  const std::string name = zp::register_bytes(bytes, hint);
  {
    std::unique_ptr<cctz::TimeZoneIf> z = cctz::TimeZoneIf::Make(name);
    o.loaded = z != nullptr;
    if (z) { o.fp = probe_panel(*z, f); o.desc = z->Description(); }
  }
  zp::unregister(name);
  return o;
}

// The whole oracle for one input. Sanitizer reports / asserts / hangs are caught outside (process level).
inline bool oracle(const std::string& bytes, std::string* why, std::string* cls, bool also_public) {
  const size_t declared = declared_data_len(bytes);
  if (declared > (1u << 17)) { *cls = "skipped_declares_more_than_128KiB"; return true; }  // inputs are at most 64 KiB ("given enough memory")
  // A header that declares more data than the input holds is a certain short-read rejection after one large
  // allocation; run only one in 16 of those (by content hash) to keep allocator churn from dominating the campaign.
  if (declared > bytes.size() + 64 && declared > 4096 && (vf::fnv(bytes) & 15) != 0) { *cls = "skipped_15_of_16_oversized_declarations"; return true; }
  const zm::TzFile f = zm::read_tzif(bytes);
  const Outcome a = load_once(bytes, "c12a", f);
  const Outcome b = load_once(bytes, "c12b", f);
  *cls = a.loaded ? "loaded" : (f.ok ? "rejected_though_model_reads_it" : "rejected");
  if (a.loaded != b.loaded) { *why = "loading the same bytes twice gave different outcomes"; return false; }
  if (a.loaded && (a.fp != b.fp || a.desc != b.desc)) { *why = "the same bytes loaded twice answer differently (" + a.desc + " vs " + b.desc + ")"; return false; }
  if (also_public) {
    const std::string name = zp::register_bytes(bytes, "c12pub");
    cctz::time_zone tz;
    const bool ok = cctz::load_time_zone(name, &tz);
    zp::unregister(name);
    if (ok != a.loaded) { *why = "load_time_zone outcome differs from the direct load"; return false; }
    if (!ok && tz != cctz::utc_time_zone()) { *why = "failed load_time_zone did not leave the caller with UTC"; return false; }
    if (ok) {
      if (tz.name() != name) { *why = "loaded zone does not report the requested name"; return false; }
      (void)cctz::format("%Y-%m-%dT%H:%M:%E*S%Ez %Z", zp::tp(0), tz);
      (void)tz.lookup(zp::tp(INT64_MAX)); (void)tz.lookup(cctz::civil_second::max());
    }
  }
  return true;
}

}  // namespace c12
