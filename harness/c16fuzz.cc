// libFuzzer target for C16: arbitrary bytes as a POSIX-TZ string, semantic
// oracle inside the target (acceptance + fields vs posixref, determinism).
#include "c16_core.h"
#include "fuzzutil.h"

extern "C" int LLVMFuzzerTestOneInput(const uint8_t* data, size_t size) {
  std::string s((const char*)data, size);
  std::string why; bool acc = false;
  fz::Stats& st = fz::Stats::get();
  st.ev.eval();
  if (!c16::oracle(s, &why, &acc)) fz::fail(why);
  if (acc) { st.ev.nt(vf::fnv(s)); st.ev.cls("grammar_accepts"); if (st.ev.want_sample("fuzz_accepted")) st.ev.sample("fuzz_accepted", vf::esc(s)); }
  return 0;
}
