// Helpers shared by the civil-time checks (C04, C05): alignment dispatch and
// the reference truncation / printer.  Includes cctz/civil_time.h.
#pragma once
#include <sstream>
#include <string>
#include "cctz/civil_time.h"
#include "refcal.h"

namespace cu {
using refcal::Civil;
using vf::i128;

// alignment index: 0=second 1=minute 2=hour 3=day 4=month 5=year
inline const char* align_name(int a) {
  static const char* n[] = {"second", "minute", "hour", "day", "month", "year"};
  return n[a];
}
inline Civil trunc_to(Civil c, int a) {
  if (a >= 1) c.ss = 0;
  if (a >= 2) c.mm = 0;
  if (a >= 3) c.hh = 0;
  if (a >= 4) c.d = 1;
  if (a >= 5) c.m = 1;
  return c;
}
// reference text for operator<<
inline std::string ref_text(const Civil& c, int a) {
  char b[32];
  std::string s = vf::i128_str(c.y);
  if (a <= 4) { snprintf(b, sizeof b, "-%02d", c.m); s += b; }
  if (a <= 3) { snprintf(b, sizeof b, "-%02d", c.d); s += b; }
  if (a <= 2) { snprintf(b, sizeof b, "T%02d", c.hh); s += b; }
  if (a <= 1) { snprintf(b, sizeof b, ":%02d", c.mm); s += b; }
  if (a <= 0) { snprintf(b, sizeof b, ":%02d", c.ss); s += b; }
  return s;
}
template <typename T>
Civil fields_of(const T& t) {
  return Civil{(i128)t.year(), t.month(), t.day(), t.hour(), t.minute(), t.second()};
}
template <typename T>
std::string text_of(const T& t) { std::ostringstream os; os << t; return os.str(); }

// dispatch a generic lambda on the alignment index
template <typename F>
auto with_align(int a, F&& f) {
  switch (a) {
    case 0: return f(cctz::civil_second());
    case 1: return f(cctz::civil_minute());
    case 2: return f(cctz::civil_hour());
    case 3: return f(cctz::civil_day());
    case 4: return f(cctz::civil_month());
    default: return f(cctz::civil_year());
  }
}

// number of aligned units since the epoch-aligned origin, in 128 bits
inline i128 unit_count(const Civil& c, int a) {
  switch (a) {
    case 0: return refcal::to_secs(c);
    case 1: return refcal::fdiv(refcal::to_secs(c), 60);
    case 2: return refcal::fdiv(refcal::to_secs(c), 3600);
    case 3: return refcal::days_from_civil(c.y, c.m, c.d);
    case 4: return c.y * 12 + (c.m - 1);
    default: return c.y;
  }
}
// the aligned civil time with the given unit count
inline Civil from_unit_count(i128 n, int a) {
  switch (a) {
    case 0: return refcal::from_secs(n);
    case 1: return refcal::from_secs(n * 60);
    case 2: return refcal::from_secs(n * 3600);
    case 3: { Civil c{0, 1, 1, 0, 0, 0}; refcal::civil_from_days(n, &c.y, &c.m, &c.d); return c; }
    case 4: return Civil{refcal::fdiv(n, 12), (int)refcal::fmod(n, 12) + 1, 1, 0, 0, 0};
    default: return Civil{n, 1, 1, 0, 0, 0};
  }
}
}  // namespace cu
