// C16 core oracle, shared by the rapidcheck binary, the libFuzzer target and
// replay: cctz::ParsePosixSpec vs the independent posixref parser, plus the
// "determined by the string alone" clause (result struct pre-filled with two
// different byte patterns in its plain-data fields).
#pragma once
#include <cstring>
#include "common.h"
#include "posixref.h"
#include "time_zone_posix.h"

namespace c16 {

inline void prefill(cctz::PosixTimeZone* r, unsigned char pat) {
  // only the plain-data members: callers always pass freshly constructed strings
  memset(&r->std_offset, pat, sizeof r->std_offset);
  memset(&r->dst_offset, pat, sizeof r->dst_offset);
  memset(&r->dst_start, pat, sizeof r->dst_start);
  memset(&r->dst_end, pat, sizeof r->dst_end);
  // keep the enum in its declared range so that merely copying the struct is not UB
  r->dst_start.date.fmt = (pat & 1) ? cctz::PosixTransition::N : cctz::PosixTransition::J;
  r->dst_end.date.fmt = (pat & 1) ? cctz::PosixTransition::N : cctz::PosixTransition::J;
}
inline std::string show_date(const cctz::PosixTransition& t) {
  char b[96];
  switch (t.date.fmt) {
    case cctz::PosixTransition::J: snprintf(b, sizeof b, "J%d/%ld", (int)t.date.j.day, (long)t.time.offset); break;
    case cctz::PosixTransition::N: snprintf(b, sizeof b, "%d/%ld", (int)t.date.n.day, (long)t.time.offset); break;
    default: snprintf(b, sizeof b, "M%d.%d.%d/%ld", (int)t.date.m.month, (int)t.date.m.week, (int)t.date.m.weekday, (long)t.time.offset);
  }
  return b;
}
inline bool same_date(const cctz::PosixTransition& a, const cctz::PosixTransition& b) {
  if (a.date.fmt != b.date.fmt || a.time.offset != b.time.offset) return false;
  switch (a.date.fmt) {
    case cctz::PosixTransition::J: return a.date.j.day == b.date.j.day;
    case cctz::PosixTransition::N: return a.date.n.day == b.date.n.day;
    default: return a.date.m.month == b.date.m.month && a.date.m.week == b.date.m.week && a.date.m.weekday == b.date.m.weekday;
  }
}
inline bool date_equals_ref(const cctz::PosixTransition& a, const px::Date& d) {
  if (a.time.offset != d.time) return false;
  switch (d.kind) {
    case px::Date::J: return a.date.fmt == cctz::PosixTransition::J && a.date.j.day == d.day;
    case px::Date::N: return a.date.fmt == cctz::PosixTransition::N && a.date.n.day == d.day;
    default: return a.date.fmt == cctz::PosixTransition::M && a.date.m.month == d.month && a.date.m.week == d.week && a.date.m.weekday == d.wday;
  }
}
inline std::string show(const cctz::PosixTimeZone& r) {
  std::string s = "std=" + vf::esc(r.std_abbr) + "/" + std::to_string(r.std_offset);
  if (!r.dst_abbr.empty()) s += " dst=" + vf::esc(r.dst_abbr) + "/" + std::to_string(r.dst_offset) + " start=" + show_date(r.dst_start) + " end=" + show_date(r.dst_end);
  return s;
}

// classification for evidence: "accepted", "rejected"
inline bool oracle(const std::string& spec_in, std::string* why, bool* accepted = nullptr) {
  // an exact-capacity heap copy: a read past the terminating NUL then leaves the allocation (visible to ASan)
  std::string spec;
  spec.reserve(std::max<size_t>(spec_in.size(), 16));
  spec = spec_in;
  if (spec.size() > 15) spec.shrink_to_fit();
  cctz::PosixTimeZone r1, r2;
  prefill(&r1, 0x11); prefill(&r2, 0xEE);
  const bool a1 = cctz::ParsePosixSpec(spec, &r1);
  const bool a2 = cctz::ParsePosixSpec(spec, &r2);
  px::Posix ref;
  const bool ea = px::parse(spec, &ref);
  if (accepted) *accepted = ea;
  const std::string ctx = "spec '" + vf::esc(spec) + "': ";
  if (a1 != a2) { *why = ctx + "acceptance differs between two calls"; return false; }
  if (a1 != ea) { *why = ctx + (a1 ? "accepted by ParsePosixSpec but not a valid POSIX-TZ rule string" : "rejected by ParsePosixSpec but valid per the grammar"); return false; }
  if (!a1) return true;
  // fully determined result
  if (r1.std_abbr != r2.std_abbr || r1.std_offset != r2.std_offset || r1.dst_abbr != r2.dst_abbr) { *why = ctx + "std fields differ between two calls: " + show(r1) + " vs " + show(r2); return false; }
  if (!r1.dst_abbr.empty() && (r1.dst_offset != r2.dst_offset || !same_date(r1.dst_start, r2.dst_start) || !same_date(r1.dst_end, r2.dst_end))) {
    *why = ctx + "result depends on the previous contents of the output struct: " + show(r1) + " vs " + show(r2); return false;
  }
  // equals the reference
  if (r1.std_abbr != ref.std_abbr || r1.std_offset != ref.std_off) { *why = ctx + "std part " + show(r1) + " expected " + vf::esc(ref.std_abbr) + "/" + std::to_string(ref.std_off); return false; }
  if (r1.dst_abbr.empty() != !ref.has_dst && !(ref.has_dst && ref.dst_abbr.empty())) { *why = ctx + "DST presence differs: " + show(r1); return false; }
  if (ref.has_dst && !ref.dst_abbr.empty()) {
    if (r1.dst_abbr != ref.dst_abbr || r1.dst_offset != ref.dst_off) { *why = ctx + "dst part " + show(r1) + " expected " + vf::esc(ref.dst_abbr) + "/" + std::to_string(ref.dst_off); return false; }
    if (!date_equals_ref(r1.dst_start, ref.start) || !date_equals_ref(r1.dst_end, ref.end)) { *why = ctx + "rule dates/times " + show(r1) + " differ from the reference reading"; return false; }
  }
  return true;
}

}  // namespace c16
