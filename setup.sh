#!/bin/sh
# Offline setup: build helper tools and warm the content-hashed build cache for
# the current /repo tree (checks rebuild by themselves when the tree changes).
set -e
cd "$(dirname "$0")"
mkdir -p build evidence
./check --build-all
# Self-validation of the oracles (harness bugs must fail here, never as a cctz VIOLATION):
#  refcal vs glibc gmtime_r/timegm, zonemodel vs Python zoneinfo and glibc localtime_r (two-of-three)
mkdir -p build/tools build/work/selfcheck
g++ -std=gnu++17 -O2 -Iharness harness/modelcheck.cc -o build/tools/modelcheck
python3 tools/gen_zic.py --seed 11 --count 120 --out "$PWD/build/work/selfcheck/zic" > build/work/selfcheck/gen.log 2>&1 || true
./build/tools/modelcheck "$PWD/build/work/selfcheck/zic" "$PWD/build/work/selfcheck/dump.txt"
python3 tools/validate_model.py build/work/selfcheck/dump.txt
rm -rf build/work/selfcheck
