#!/bin/sh
# Offline setup: build helper tools and warm the content-hashed build cache for
# the current /repo tree (checks rebuild by themselves when the tree changes).
set -e
cd "$(dirname "$0")"
mkdir -p build evidence
./check --build-all
