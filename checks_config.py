# Per-property build/run configuration for ./check.
def rcbin(pid, **kw):
    d = {'name': pid.lower(), 'src': pid.lower() + '.cc', 'flavour': 'asan'}
    d.update(kw)
    return d

CALNOTE = ['refcal (128-bit era algorithm) is the calendar oracle; validated at setup against glibc timegm/gmtime_r and its own inverse laws']
ZONENOTE = CALNOTE + ['zonemodel (independent RFC 9636 reader + POSIX rule evaluator); validated at setup against glibc localtime_r/zdump',
            'domain W of synthetic zones as defined in DESIGN.md section 3.3']
CHECKS = {
    'C01': {
        'bins': [rcbin('C01')],
        'shards': {'quick': 12, 'thorough': 16},
        'time_limit': {'quick': 900, 'thorough': 5400},
        'prepare': 'zic',
        'assumptions': ZONENOTE,
    },
    'C02': {
        'bins': [rcbin('C02')],
        'shards': {'quick': 12, 'thorough': 16},
        'time_limit': {'quick': 900, 'thorough': 5400},
        'prepare': 'zic',
        'assumptions': ZONENOTE,
    },
    'C03': {
        'bins': [rcbin('C03')],
        'shards': {'quick': 12, 'thorough': 16},
        'time_limit': {'quick': 900, 'thorough': 5400},
        'prepare': 'zic',
        'assumptions': ZONENOTE,
    },
    'C04': {
        'bins': [rcbin('C04')],
        'shards': {'quick': 8, 'thorough': 16},
        'time_limit': {'quick': 600, 'thorough': 3600},
        'assumptions': CALNOTE,
    },
    'C05': {
        'bins': [rcbin('C05')],
        'shards': {'quick': 8, 'thorough': 16},
        'time_limit': {'quick': 600, 'thorough': 3600},
        'assumptions': CALNOTE,
    },
    'C06': {
        'bins': [rcbin('C06')],
        'shards': {'quick': 12, 'thorough': 16},
        'time_limit': {'quick': 900, 'thorough': 5400},
        'prepare': 'zic',
        'assumptions': ZONENOTE,
    },
    'C07': {
        'bins': [rcbin('C07')],
        'shards': {'quick': 8, 'thorough': 16},
        'time_limit': {'quick': 600, 'thorough': 3600},
        'assumptions': ['the lossless format family is the one stated in the property (see the rule); LC_ALL=C pinned (month/day names)'],
    },
    'C08': {
        'bins': [rcbin('C08'), {'name': 'c08fuzz', 'src': 'c08fuzz.cc', 'flavour': 'fuzz'}],
        'shards': {'quick': 8, 'thorough': 16},
        'time_limit': {'quick': 600, 'thorough': 3600},
        'fuzz': {'bin': 'c08fuzz', 'runs': {'quick': 0, 'thorough': 0}, 'max_total_time': {'quick': 30, 'thorough': 300},
                 'jobs': {'quick': 4, 'thorough': 16}, 'max_len': 256, 'case_key': 'fuzz_input_hex',
                 'dict': ['"%E*S"', '"%E4Y"', '"%:::z"', '"%E15f"', '"%Ez"', '"%ET"', '"%E1024S"', '"%Ec"', '"%OS"', '"%%"', '"%s"', '"%Z"', '"%U"', '"%W"']},
        'assumptions': ['fmtref.h: reference renderer written from the format() documentation in time_zone.h; strftime(3) of the C library renders the non-cctz conversions',
                        'LC_ALL=C, TZ=UTC pinned for every process'],
    },
    'C09': {
        'bins': [rcbin('C09'), {'name': 'c09fuzz', 'src': 'c09fuzz.cc', 'flavour': 'fuzz'}],
        'shards': {'quick': 8, 'thorough': 16},
        'time_limit': {'quick': 600, 'thorough': 3600},
        'fuzz': {'bin': 'c09fuzz', 'runs': {'quick': 0, 'thorough': 0}, 'max_total_time': {'quick': 30, 'thorough': 300},
                 'jobs': {'quick': 4, 'thorough': 16}, 'max_len': 256, 'case_key': 'fuzz_input_hex',
                 'dict': ['"%E*S"', '"%E4Y"', '"%Ez"', '"%Y-%m-%d"', '"%H:%M:%S"', '"%s"', '"%U"', '"%W"', '"%p"', '"%I"', '"+00:00"', '"Z"', '"60"', '"2020-02-29"',
                          '"9223372036854775807"', '"-9223372036854775808"', '"292277026596"']},
        'assumptions': ['expectations are derived from the construction of each case (independent printer + refcal + zonemodel), never from a second parser',
                        'LC_ALL=C pinned (names, AM/PM)'],
    },
    'C10': {
        'bins': [rcbin('C10')],
        'shards': {'quick': 12, 'thorough': 16},
        'time_limit': {'quick': 900, 'thorough': 5400},
        'prepare': 'zic',
        'assumptions': ZONENOTE,
    },
    'C11': {
        'bins': [rcbin('C11')],
        'shards': {'quick': 12, 'thorough': 16},
        'time_limit': {'quick': 900, 'thorough': 5400},
        'prepare': 'zic',
        'assumptions': ZONENOTE,
    },
    'C12': {
        'bins': [rcbin('C12'), {'name': 'c12fuzz', 'src': 'c12fuzz.cc', 'flavour': 'fuzz'},
                 {'name': 'c12probe-ipat', 'src': 'c12probe.cc', 'flavour': 'ipat', 'harness_flavour': 'plain'},
                 {'name': 'c12probe-izero', 'src': 'c12probe.cc', 'flavour': 'izero', 'harness_flavour': 'plain'}],
        'initdiff': {'bins': ['c12probe-ipat', 'c12probe-izero'], 'globs': ['fuzz/seeds/*', 'fuzz/corpus-*/*', 'mutants/*'], 'max_files': 6000},
        'shards': {'quick': 8, 'thorough': 16},
        'time_limit': {'quick': 900, 'thorough': 5400},
        'timeout_is_failure': True,
        'replay_timeout': 25,
        'fuzz': {'bin': 'c12fuzz', 'runs': {'quick': 0, 'thorough': 0}, 'max_total_time': {'quick': 40, 'thorough': 480},
                 'jobs': {'quick': 6, 'thorough': 16}, 'max_len': 8192, 'case_key': 'input_hex', 'unit_timeout': 60,
                 'timeouts_count': True, 'seed_provider': 'c12_seeds.py',
                 'dict': ['"TZif"', '"TZif2"', '"TZif3"', '"\\x0aEST5EDT,M3.2.0,M11.1.0\\x0a"', '",J60/"', '",0/0,J365/25"',
                          '"\\x00\\x00\\x01\\x00"', '"\\x7f\\xff\\xff\\xff\\xff\\xff\\xff\\xff"', '"\\xf8\\x00\\x00\\x00\\x00\\x00\\x00\\x00"']},
        'assumptions': ['sanitizers (ASan, UBSan) and asserts are the memory-safety/UB oracle; zonemodel reader only classifies inputs'],
    },
    'C14': {
        'bins': [rcbin('C14')],
        'shards': {'quick': 12, 'thorough': 16},
        'time_limit': {'quick': 900, 'thorough': 5400},
        'prepare': 'zic',
        'assumptions': ZONENOTE,
    },
    'C15': {
        'bins': [rcbin('C15')],
        'shards': {'quick': 8, 'thorough': 16},
        'time_limit': {'quick': 600, 'thorough': 3600},
        'assumptions': CALNOTE + ['naming rules (fixedref in c15.cc) transcribed from time_zone.h / time_zone_fixed.h documentation'],
    },
    'C18': {
        'bins': [rcbin('C18')],
        'shards': {'quick': 12, 'thorough': 12},
        'time_limit': {'quick': 600, 'thorough': 3600},
        'assumptions': CALNOTE,
    },
    'C16': {
        'bins': [rcbin('C16'), {'name': 'c16fuzz', 'src': 'c16fuzz.cc', 'flavour': 'fuzz'}],
        'shards': {'quick': 8, 'thorough': 16},
        'time_limit': {'quick': 600, 'thorough': 3600},
        'fuzz': {'bin': 'c16fuzz', 'runs': {'quick': 300000, 'thorough': 0}, 'max_total_time': {'quick': 60, 'thorough': 300},
                 'jobs': {'quick': 4, 'thorough': 16}, 'max_len': 64, 'case_key': 'spec_hex',
                 'seeds': ['EST5EDT,M3.2.0,M11.1.0', '<+0330>-3:30<+0430>,J79/24,J263/24', 'XXX3YYY2,0/0,J365/25', 'NZST-12NZDT,M9.5.0,M4.1.0/3', 'UTC0'],
                 'dict': ['"M3.2.0"', '",J60"', '"/-167"', '"<+03>"', '",0/0,J365/25"', '":59:59"', '"EST5EDT"']},
        'assumptions': ['posixref.h: independent recursive-descent reader of the POSIX-TZ grammar as stated in the property'],
    },
    'C17': {
        'bins': [rcbin('C17')],
        'shards': {'quick': 8, 'thorough': 16},
        'time_limit': {'quick': 600, 'thorough': 3600},
        'assumptions': ['refcal (128-bit era algorithm) is the calendar oracle; validated at setup '
                        'against glibc timegm/gmtime_r and its own inverse laws'],
    },
}
